#[path = "../../common/fsprobe.rs"]
mod fsprobe;
fn main() { fsprobe::main(); }
