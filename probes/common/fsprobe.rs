// Shared body of probe_fs / probe_fs_fallback: drives the public libfs API and prints what it returns.
use std::env;
use std::fs::{File, OpenOptions};
use std::io::Read;
use std::path::Path;
use std::process::exit;

use libfs::{allocate_file, copy_file, copy_file_bytes, copy_file_offset, copy_node, map_extents, merge_extents,
            next_sparse_segments, probably_sparse, reflink, Extent};

fn ranges_json(v: &[(u64, u64)]) -> String {
    let parts: Vec<String> = v.iter().map(|(s, e)| format!("[{},{}]", s, e)).collect();
    format!("[{}]", parts.join(","))
}

fn cmd_map(path: &str) -> i32 {
    let f = File::open(path).expect("open");
    let len = f.metadata().unwrap().len();
    let sparse = probably_sparse(&f);
    let ext = map_extents(&f);
    let (ext_json, merged_json) = match ext {
        Ok(Some(v)) => {
            let raw: Vec<(u64, u64)> = v.iter().map(|e| (e.start, e.end)).collect();
            let merged = merge_extents(v);
            let mj = match merged {
                Ok(m) => ranges_json(&m.iter().map(|e| (e.start, e.end)).collect::<Vec<_>>()),
                Err(e) => format!("{{\"error\":\"{}\"}}", e),
            };
            (ranges_json(&raw), mj)
        }
        Ok(None) => ("null".to_string(), "null".to_string()),
        Err(e) => (format!("{{\"error\":\"{}\"}}", e), "null".to_string()),
    };
    // successive data/hole segment search from 0
    let out = OpenOptions::new().write(true).create(true).truncate(true).open(format!("{}.probe-out", path)).unwrap();
    let mut segs: Vec<(u64, u64)> = vec![];
    let mut seg_err = String::new();
    let mut pos = 0u64;
    let mut guard = 0;
    while pos < len {
        match next_sparse_segments(&f, &out, pos) {
            Ok((d, h)) => {
                if h > d { segs.push((d, h)); }
                if h <= pos && d <= pos { seg_err = format!("no progress at {}", pos); break; }
                pos = h;
            }
            Err(e) => { seg_err = format!("{}", e); break; }
        }
        guard += 1;
        if guard > 1_000_000 { seg_err = "too many segments".to_string(); break; }
    }
    let _ = std::fs::remove_file(format!("{}.probe-out", path));
    println!("{{\"len\":{},\"probably_sparse\":{},\"extents\":{},\"merged\":{},\"segments\":{},\"seg_err\":\"{}\"}}",
             len, match sparse { Ok(b) => b.to_string(), Err(_) => "null".to_string() }, ext_json, merged_json,
             ranges_json(&segs), seg_err);
    0
}

// -- merge_extents oracle ----------------------------------------------------

fn check_merge(input: &[(u64, u64)]) -> Result<usize, String> {
    check_merge_flags(input, 0)
}

// `flags`: bit i = the shared flag of extent i
fn check_merge_flags(input: &[(u64, u64)], flags: u64) -> Result<usize, String> {
    let ext: Vec<Extent> = input.iter().enumerate().map(|(i, &(s, e))| Extent { start: s, end: e, shared: (flags >> i) & 1 == 1 }).collect();
    let out = merge_extents(ext).map_err(|e| format!("error: {}", e))?;
    let o: Vec<(u64, u64)> = out.iter().map(|e| (e.start, e.end)).collect();
    // (1) sorted, disjoint, non-empty
    for w in o.windows(2) {
        if !(w[0].1 <= w[1].0) { return Err(format!("output not sorted/disjoint: {:?}", o)); }
    }
    for r in &o { if r.0 >= r.1 { return Err(format!("empty or inverted output range {:?}", r)); } }
    // (2) coverage of every input extent
    for i in input {
        if !o.iter().any(|r| r.0 <= i.0 && i.1 <= r.1) { return Err(format!("input {:?} not covered by {:?}", i, o)); }
    }
    // (3) boundaries are input boundaries
    for r in &o {
        if !input.iter().any(|i| i.0 == r.0) { return Err(format!("output start {} is no input start ({:?})", r.0, o)); }
        if !input.iter().any(|i| i.1 == r.1) { return Err(format!("output end {} is no input end ({:?})", r.1, o)); }
    }
    Ok(o.len())
}

fn enumerate(u: u64, from: u64, cur: &mut Vec<(u64, u64)>, stats: &mut (u64, u64, u64), bad: &mut Vec<String>) {
    // cur is a valid list; check it, then extend
    stats.0 += 1;
    match check_merge(cur) {
        Ok(n) => { if n < cur.len() { stats.1 += 1; } }
        Err(e) => { stats.2 += 1; if bad.len() < 5 { bad.push(format!("{:?}: {}", cur, e)); } }
    }
    for s in from..u {
        for e in (s + 1)..=u {
            cur.push((s, e));
            enumerate(u, e, cur, stats, bad);
            cur.pop();
        }
    }
}

fn enumerate_flags(u: u64, from: u64, cur: &mut Vec<(u64, u64)>, stats: &mut (u64, u64, u64), bad: &mut Vec<String>) {
    for flags in 0..(1u64 << cur.len()) {
        stats.0 += 1;
        match check_merge_flags(cur, flags) {
            Ok(n) => { if n < cur.len() { stats.1 += 1; } }
            Err(e) => { stats.2 += 1; if bad.len() < 5 { bad.push(format!("{:?} shared-flags={:b}: {}", cur, flags, e)); } }
        }
    }
    for s in from..u {
        for e in (s + 1)..=u {
            cur.push((s, e));
            enumerate_flags(u, e, cur, stats, bad);
            cur.pop();
        }
    }
}

// Lists that are sorted by start but may overlap, nest, repeat a start or contain empty extents (not what FIEMAP produces, but the
// function is public): the output may then overlap too, so only coverage and boundaries are demanded -- every byte of every
// input extent is in some output range, and output ranges begin and end at input boundaries.
fn check_merge_cover(input: &[(u64, u64)], flags: u64) -> Result<usize, String> {
    let ext: Vec<Extent> = input.iter().enumerate().map(|(i, &(s, e))| Extent { start: s, end: e, shared: (flags >> i) & 1 == 1 }).collect();
    let out = merge_extents(ext).map_err(|e| format!("error: {}", e))?;
    let o: Vec<(u64, u64)> = out.iter().map(|e| (e.start, e.end)).collect();
    for i in input {
        for b in i.0..i.1 {
            if !o.iter().any(|r| r.0 <= b && b < r.1) { return Err(format!("byte {} of input {:?} not covered by {:?}", b, i, o)); }
        }
    }
    for r in &o {
        if !input.iter().any(|i| i.0 == r.0) { return Err(format!("output start {} is no input start ({:?})", r.0, o)); }
        if !input.iter().any(|i| i.1 == r.1) { return Err(format!("output end {} is no input end ({:?})", r.1, o)); }
    }
    Ok(o.len())
}

fn enumerate_overlap(u: u64, kmax: usize, from: u64, cur: &mut Vec<(u64, u64)>, stats: &mut (u64, u64, u64), bad: &mut Vec<String>) {
    for flags in 0..(1u64 << cur.len()) {
        stats.0 += 1;
        match check_merge_cover(cur, flags) {
            Ok(n) => { if n < cur.len() { stats.1 += 1; } }
            Err(e) => { stats.2 += 1; if bad.len() < 5 { bad.push(format!("{:?} shared-flags={:b}: {}", cur, flags, e)); } }
        }
    }
    if cur.len() >= kmax { return; }
    for s in from..=u {
        for e in s..=u {           // e == s: an empty extent
            cur.push((s, e));
            enumerate_overlap(u, kmax, s, cur, stats, bad);
            cur.pop();
        }
    }
}

fn cmd_merge_exhaustive_overlap(u: u64, kmax: usize) -> i32 {
    let mut stats = (0u64, 0u64, 0u64);
    let mut bad = vec![];
    enumerate_overlap(u, kmax, 0, &mut vec![], &mut stats, &mut bad);
    println!("{{\"universe\":{},\"max_extents\":{},\"lists\":{},\"lists_with_merges\":{},\"violations\":{},\"examples\":{:?}}}", u, kmax, stats.0, stats.1, stats.2, bad);
    if stats.2 > 0 { 1 } else { 0 }
}

fn cmd_merge_exhaustive_flags(u: u64) -> i32 {
    let mut stats = (0u64, 0u64, 0u64);
    let mut bad = vec![];
    enumerate_flags(u, 0, &mut vec![], &mut stats, &mut bad);
    println!("{{\"universe\":{},\"lists\":{},\"lists_with_merges\":{},\"violations\":{},\"examples\":{:?}}}", u, stats.0, stats.1, stats.2, bad);
    if stats.2 > 0 { 1 } else { 0 }
}

fn cmd_merge_exhaustive(u: u64) -> i32 {
    let mut stats = (0u64, 0u64, 0u64);
    let mut bad = vec![];
    enumerate(u, 0, &mut vec![], &mut stats, &mut bad);
    println!("{{\"universe\":{},\"lists\":{},\"lists_with_merges\":{},\"violations\":{},\"examples\":{:?}}}", u, stats.0, stats.1, stats.2, bad);
    if stats.2 > 0 { 1 } else { 0 }
}

fn xorshift(s: &mut u64) -> u64 { *s ^= *s << 13; *s ^= *s >> 7; *s ^= *s << 17; *s }

fn cmd_merge_random(seed: u64, n: u64) -> i32 {
    let mut s = seed | 1;
    let mut viol = 0u64; let mut merges = 0u64; let mut bad: Vec<String> = vec![];
    for _ in 0..n {
        let k = xorshift(&mut s) % 40;
        let near_max = xorshift(&mut s) % 4 == 0;
        let mut pos: u64 = if near_max { u64::MAX - 5000 - (xorshift(&mut s) % 100000) } else { xorshift(&mut s) % (1 << 40) };
        let mut l = vec![];
        for _ in 0..k {
            let gap = match xorshift(&mut s) % 4 { 0 => 0, 1 => 1, 2 => 4096, _ => xorshift(&mut s) % 100000 };
            let len = 1 + match xorshift(&mut s) % 3 { 0 => 0, 1 => 4095, _ => xorshift(&mut s) % 1000000 };
            let st = match pos.checked_add(gap) { Some(v) => v, None => break };
            let en = match st.checked_add(len) { Some(v) => v, None => break };
            if en == u64::MAX { break; } // the merge rule computes end + 1
            l.push((st, en));
            pos = en;
        }
        match check_merge_flags(&l, xorshift(&mut s)) {
            Ok(m) => { if m < l.len() { merges += 1; } }
            Err(e) => { viol += 1; if bad.len() < 5 { bad.push(format!("{:?}: {}", l, e)); } }
        }
    }
    println!("{{\"random_lists\":{},\"lists_with_merges\":{},\"violations\":{},\"examples\":{:?}}}", n, merges, viol, bad);
    if viol > 0 { 1 } else { 0 }
}

// -- copy drivers over the public API ----------------------------------------

fn cmd_copy_file(src: &str, dst: &str) -> i32 {
    match copy_file(Path::new(src), Path::new(dst)) {
        Ok(n) => { println!("{{\"ok\":{}}}", n); 0 }
        Err(e) => { println!("{{\"err\":\"{}\"}}", e); 1 }
    }
}

fn cmd_copy_bytes(src: &str, dst: &str, bs: u64) -> i32 {
    // cursor-based loop, as a client would write it: repeat until the length is reached
    let i = File::open(src).unwrap();
    let len = i.metadata().unwrap().len();
    let o = File::create(dst).unwrap();
    allocate_file(&o, len).unwrap();
    let mut done = 0u64;
    while done < len {
        let want = std::cmp::min(bs, len - done);
        match copy_file_bytes(&i, &o, want) {
            Ok(0) => { println!("{{\"err\":\"zero progress\"}}"); return 1; }
            Ok(n) => done += n as u64,
            Err(e) => { println!("{{\"err\":\"{}\"}}", e); return 1; }
        }
    }
    println!("{{\"ok\":{}}}", done);
    0
}

fn cmd_copy_offset(src: &str, dst: &str, bs: u64) -> i32 {
    // one call per block at explicit offsets, the way the block driver uses it: the returned count only feeds the progress
    // display, so the exit status does not depend on it (whoever returns a short count here has lost bytes)
    let i = File::open(src).unwrap();
    let len = i.metadata().unwrap().len();
    let o = File::create(dst).unwrap();
    allocate_file(&o, len).unwrap();
    let mut off = 0u64; let mut total = 0u64;
    while off < len {
        let want = std::cmp::min(bs, len - off);
        match copy_file_offset(&i, &o, want, off as i64) {
            Ok(n) => { total += n as u64; }
            Err(e) => { println!("{{\"err\":\"{}\"}}", e); return 1; }
        }
        off += want;
    }
    println!("{{\"ok\":{},\"len\":{}}}", total, len);
    0
}

fn cmd_reflink(src: &str, dst: &str) -> i32 {
    let i = File::open(src).unwrap();
    let o = File::create(dst).unwrap();
    match reflink(&i, &o) {
        Ok(b) => { println!("{{\"reflink\":{}}}", b); 0 }
        Err(e) => { println!("{{\"err\":\"{}\"}}", e); 1 }
    }
}

fn cmd_node(src: &str, dst: &str) -> i32 {
    match copy_node(Path::new(src), Path::new(dst)) {
        Ok(()) => { println!("{{\"ok\":true}}"); 0 }
        Err(e) => { println!("{{\"err\":\"{}\"}}", e); 1 }
    }
}

fn cmd_readcheck(path: &str) -> i32 {
    // helper: count non-zero bytes (sanity for the harness)
    let mut f = File::open(path).unwrap();
    let mut buf = vec![0u8; 1 << 20];
    let mut nz = 0u64;
    loop { let n = f.read(&mut buf).unwrap(); if n == 0 { break; } nz += buf[..n].iter().filter(|b| **b != 0).count() as u64; }
    println!("{{\"nonzero\":{}}}", nz);
    0
}

pub fn main() {
    let a: Vec<String> = env::args().collect();
    let rc = match a.get(1).map(|s| s.as_str()) {
        Some("map") => {
            // further arguments: files mapped first, on the same thread (what the mapping of one file leaves behind must not show
            // in the next: the block driver maps every file of a run on its one dispatcher thread)
            for w in a.iter().skip(3) {
                if let Ok(f) = File::open(w) {
                    let _ = map_extents(&f).map(|m| m.map(merge_extents));
                }
            }
            cmd_map(&a[2])
        }
        Some("merge-exhaustive") => cmd_merge_exhaustive(a[2].parse().unwrap()),
        Some("merge-exhaustive-flags") => cmd_merge_exhaustive_flags(a[2].parse().unwrap()),
        Some("merge-exhaustive-overlap") => cmd_merge_exhaustive_overlap(a[2].parse().unwrap(), a[3].parse().unwrap()),
        Some("merge-random") => cmd_merge_random(a[2].parse().unwrap(), a[3].parse().unwrap()),
        Some("copy_file") => cmd_copy_file(&a[2], &a[3]),
        Some("copy_bytes") => cmd_copy_bytes(&a[2], &a[3], a[4].parse().unwrap()),
        Some("copy_offset") => cmd_copy_offset(&a[2], &a[3], a[4].parse().unwrap()),
        Some("reflink") => cmd_reflink(&a[2], &a[3]),
        Some("node") => cmd_node(&a[2], &a[3]),
        Some("nonzero") => cmd_readcheck(&a[2]),
        _ => { eprintln!("usage: probe_fs map|merge-exhaustive|merge-random|copy_file|copy_bytes|copy_offset|reflink|node ..."); 2 }
    };
    exit(rc);
}
