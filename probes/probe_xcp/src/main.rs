// probe_xcp: a library client of libxcp, written the way the crate documentation shows.
//
//   probe_xcp <driver> <updater> <mode> <workers> <block_size> [--flag ...] -- <src>... <dest>
//     flags include: --vanish <size> <path>  (delete <path> when a Size update of exactly <size> arrives)
//     updater: channel | noop | record | flaky:<k> (a recording updater whose send() fails from the k+1st update on)
//     mode: live (drain while copying) | after (drain once copy() returned) | hangup:<k> (channel: receive k updates, then drop the receiver)
//
// Every update the client sees is (a) printed to stdout as one JSON line, in the order seen, and (b) announced
// by a write() to the (invalid) descriptor 999, which the ptrace supervisor logs with its payload: that places
// the update in the supervisor's total order of system calls.
use std::env;
use std::path::PathBuf;
use std::process::exit;
use std::sync::{Arc, Mutex};
use std::thread;

use crossbeam_channel::TryRecvError;
use libxcp::config::{Backup, Config, Reflink};
use libxcp::drivers::{load_driver, Drivers};
use libxcp::errors::Result;
use libxcp::feedback::{ChannelUpdater, NoopUpdater, StatusUpdate, StatusUpdater};

fn marker(s: &str) {
    unsafe { libc::write(999, s.as_ptr() as *const libc::c_void, s.len()); }
}

fn describe(u: &StatusUpdate) -> (String, String) {
    match u {
        StatusUpdate::Copied(v) => (format!("{{\"t\":\"copied\",\"v\":{}}}", v), format!("U copied {}", v)),
        StatusUpdate::Size(v) => (format!("{{\"t\":\"size\",\"v\":{}}}", v), format!("U size {}", v)),
        StatusUpdate::Error(e) => (format!("{{\"t\":\"error\",\"msg\":{:?}}}", e.to_string()), "U error".to_string()),
    }
}

struct Recorder { log: Mutex<Vec<String>> }

impl StatusUpdater for Recorder {
    fn send(&self, update: StatusUpdate) -> Result<()> {
        let (j, m) = describe(&update);
        let mut g = self.log.lock().unwrap();
        marker(&m);          // inside the lock: marker order == log order
        g.push(j);
        Ok(())
    }
}

// A client-side updater that stops accepting updates (its consumer has gone away): send() answers Err from then on.
struct Flaky { inner: Arc<Recorder>, left: Mutex<u64> }

impl StatusUpdater for Flaky {
    fn send(&self, update: StatusUpdate) -> Result<()> {
        {
            let mut g = self.left.lock().unwrap();
            if *g == 0 {
                marker("F refused");
                return Err(libxcp::errors::XcpError::CopyError("the client's updater has gone away".to_string()).into());
            }
            *g -= 1;
        }
        self.inner.send(update)
    }
}

// A client-side updater that removes one source file the moment its size is announced (a file vanishing from a
// live tree between the walk and the copy), then forwards the update.
struct Vanisher { inner: Arc<dyn StatusUpdater>, size: u64, path: PathBuf }

impl StatusUpdater for Vanisher {
    fn send(&self, update: StatusUpdate) -> Result<()> {
        if let StatusUpdate::Size(v) = &update {
            if *v == self.size {
                let _ = std::fs::remove_file(&self.path);
                marker("V vanished");
            }
        }
        self.inner.send(update)
    }
}

fn main() {
    let a: Vec<String> = env::args().collect();
    if a.len() < 8 { eprintln!("usage"); exit(2); }
    let driver: Drivers = a[1].parse().expect("driver");
    let updater = a[2].clone();
    let mode = a[3].clone();
    let mut config = Config::default();
    config.workers = a[4].parse().unwrap();
    config.block_size = a[5].parse().unwrap();
    let mut i = 6;
    let mut vanish: Option<(u64, PathBuf)> = None;
    while i < a.len() && a[i] != "--" {
        match a[i].as_str() {
            "--vanish" => { vanish = Some((a[i + 1].parse().unwrap(), PathBuf::from(&a[i + 2]))); i += 2; }
            "--no-clobber" => config.no_clobber = true,
            "--gitignore" => config.gitignore = true,
            "--fsync" => config.fsync = true,
            "--dereference" => config.dereference = true,
            "--no-perms" => config.no_perms = true,
            "--no-timestamps" => config.no_timestamps = true,
            "--no-target-directory" => config.no_target_directory = true,
            "--reflink-never" => config.reflink = Reflink::Never,
            "--reflink-always" => config.reflink = Reflink::Always,
            "--backup-numbered" => config.backup = Backup::Numbered,
            x => { eprintln!("bad flag {}", x); exit(2); }
        }
        i += 1;
    }
    let rest: Vec<PathBuf> = a[i + 1..].iter().map(PathBuf::from).collect();
    let (dest, sources) = rest.split_last().expect("paths");
    let dest = dest.clone();
    let sources = sources.to_vec();
    let config = Arc::new(config);
    let drv = load_driver(driver, &config).expect("load_driver");

    let recorder = Arc::new(Recorder { log: Mutex::new(vec![]) });
    let mut rx = None;
    let stats: Arc<dyn StatusUpdater> = match updater.as_str() {
        "channel" => { let u = ChannelUpdater::new(&config); rx = Some(u.rx_channel()); Arc::new(u) }
        "noop" => Arc::new(NoopUpdater),
        x if x.starts_with("flaky:") => Arc::new(Flaky { inner: recorder.clone(), left: Mutex::new(x[6..].parse().expect("flaky:<k>")) }),
        _ => recorder.clone(),
    };

    let stats: Arc<dyn StatusUpdater> = match vanish {
        Some((size, path)) => Arc::new(Vanisher { inner: stats, size, path }),
        None => stats,
    };

    let mut handle = Some(thread::spawn(move || drv.copy(sources, &dest, stats)));
    let mut result = None;
    if mode == "after" {
        result = Some(handle.take().unwrap().join());
        marker("C returned");
    }
    let mut disconnected = true;
    if let (Some(k), Some(r)) = (mode.strip_prefix("hangup:"), rx.as_ref()) {
        // a client that stops listening part-way: k updates are received, then the receiving end is dropped
        let k: usize = k.parse().expect("hangup:<k>");
        for u in r.iter().take(k) {
            let (j, m) = describe(&u);
            marker(&m.replace("U ", "R "));
            println!("{}", j);
        }
        rx = None;
        marker("H hung up");
    }
    if let Some(rx) = rx {
        // documented usage: iterate until the channel closes
        for u in rx.iter() {
            let (j, m) = describe(&u);
            marker(&m.replace("U ", "R "));
            println!("{}", j);
        }
        disconnected = matches!(rx.try_recv(), Err(TryRecvError::Disconnected));
    }
    let result = match result { Some(r) => r, None => { let r = handle.take().unwrap().join(); marker("C returned"); r } };
    for j in recorder.log.lock().unwrap().iter() { println!("{}", j); }
    let (ok, err) = match result {
        Ok(Ok(())) => (true, String::new()),
        Ok(Err(e)) => (false, e.to_string()),
        Err(_) => (false, "panic in copy thread".to_string()),
    };
    println!("{{\"t\":\"result\",\"ok\":{},\"err\":{:?},\"disconnected\":{}}}", ok, err, disconnected);
    exit(if ok { 0 } else { 1 });
}
