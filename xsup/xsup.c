/*
 * xsup -- ptrace supervisor for runtime monitoring of xcp (engine E1 of DESIGN.md).
 *
 * One supervisor per execution.  It runs the target under ptrace, follows all
 * threads, and at every system-call enter/exit stop
 *   - appends one JSON line to the event log (total order by `seq`),
 *   - may apply a rule from the plan: fail the call with an errno, shorten an
 *     I/O length so the real kernel performs a short transfer, emulate a
 *     successful FICLONE, or SIGKILL the process,
 *   - may hold the thread according to a scheduling policy (pct / role
 *     priorities / lifo / jitter),
 * and watches for termination: logical deadlock, step/CPU budget (livelock),
 * wall-clock watchdog (inconclusive).
 *
 * x86_64 Linux only.  Plan format: one directive per line (see parse_plan).
 */
#define _GNU_SOURCE
#include <errno.h>
#include <fcntl.h>
#include <signal.h>
#include <stdarg.h>
#include <stdint.h>
#include <stdio.h>
#include <stdlib.h>
#include <string.h>
#include <time.h>
#include <unistd.h>
#include <sys/ptrace.h>
#include <sys/resource.h>
#include <sys/stat.h>
#include <sys/syscall.h>
#include <sys/time.h>
#include <sys/types.h>
#include <sys/uio.h>
#include <sys/user.h>
#include <sys/wait.h>
#include <linux/ptrace.h>
#include <linux/futex.h>

#define MAXTHREADS 1024
#define MAXFD 70000
#define MAXRULES 256
#define PATHMAX 4352

#define FICLONE_CMD 0x40049409UL
#define FICLONERANGE_CMD 0x4020940dUL
#define FIEMAP_CMD 0xC020660BUL

/* ------------------------------------------------------------------ */
/* syscall table                                                       */

enum { F_MUT = 1, F_SCHED = 2, F_BLOCK = 4, F_IO = 8 };

struct sysent {
    int nr;
    const char *name;
    int fdarg;    /* index of fd argument or -1 */
    int dirfd;    /* index of dirfd for path, -1 = none (cwd relative), -2 = no path */
    int patharg;  /* index of path argument or -1 */
    int dirfd2;   /* second path */
    int patharg2;
    int flags;
};

static const struct sysent systab[] = {
    {0, "read", 0, -2, -1, -2, -1, F_SCHED | F_BLOCK | F_IO},
    {1, "write", 0, -2, -1, -2, -1, F_SCHED | F_BLOCK | F_IO | F_MUT},
    {2, "open", -1, -1, 0, -2, -1, F_SCHED | F_BLOCK},
    {3, "close", 0, -2, -1, -2, -1, F_SCHED},
    {4, "stat", -1, -1, 0, -2, -1, F_SCHED},
    {5, "fstat", 0, -2, -1, -2, -1, 0},
    {6, "lstat", -1, -1, 0, -2, -1, F_SCHED},
    {7, "poll", -1, -2, -1, -2, -1, F_BLOCK},
    {8, "lseek", 0, -2, -1, -2, -1, F_SCHED},
    {16, "ioctl", 0, -2, -1, -2, -1, F_SCHED},
    {17, "pread64", 0, -2, -1, -2, -1, F_SCHED | F_IO},
    {18, "pwrite64", 0, -2, -1, -2, -1, F_SCHED | F_IO | F_MUT},
    {19, "readv", 0, -2, -1, -2, -1, F_BLOCK},
    {20, "writev", 0, -2, -1, -2, -1, F_BLOCK | F_MUT},
    {21, "access", -1, -1, 0, -2, -1, F_SCHED},
    {22, "pipe", -1, -2, -1, -2, -1, 0},
    {24, "sched_yield", -1, -2, -1, -2, -1, 0},
    {32, "dup", 0, -2, -1, -2, -1, 0},
    {33, "dup2", 0, -2, -1, -2, -1, 0},
    {35, "nanosleep", -1, -2, -1, -2, -1, 0},
    {41, "socket", -1, -2, -1, -2, -1, 0},
    {56, "clone", -1, -2, -1, -2, -1, 0},
    {59, "execve", -1, -1, 0, -2, -1, 0},
    {60, "exit", -1, -2, -1, -2, -1, 0},
    {61, "wait4", -1, -2, -1, -2, -1, F_BLOCK},
    {72, "fcntl", 0, -2, -1, -2, -1, 0},
    {74, "fsync", 0, -2, -1, -2, -1, F_SCHED},
    {75, "fdatasync", 0, -2, -1, -2, -1, F_SCHED},
    {76, "truncate", -1, -1, 0, -2, -1, F_SCHED | F_MUT},
    {77, "ftruncate", 0, -2, -1, -2, -1, F_SCHED | F_MUT},
    {78, "getdents", 0, -2, -1, -2, -1, F_SCHED},
    {79, "getcwd", -1, -2, -1, -2, -1, 0},
    {80, "chdir", -1, -1, 0, -2, -1, 0},
    {82, "rename", -1, -1, 0, -1, 1, F_SCHED | F_MUT},
    {83, "mkdir", -1, -1, 0, -2, -1, F_SCHED | F_MUT},
    {84, "rmdir", -1, -1, 0, -2, -1, F_SCHED | F_MUT},
    {85, "creat", -1, -1, 0, -2, -1, F_SCHED | F_MUT},
    {86, "link", -1, -1, 0, -1, 1, F_SCHED | F_MUT},
    {87, "unlink", -1, -1, 0, -2, -1, F_SCHED | F_MUT},
    {88, "symlink", -1, -1, 1, -2, -1, F_SCHED | F_MUT},   /* primary path = linkpath */
    {89, "readlink", -1, -1, 0, -2, -1, F_SCHED},
    {90, "chmod", -1, -1, 0, -2, -1, F_SCHED | F_MUT},
    {91, "fchmod", 0, -2, -1, -2, -1, F_SCHED | F_MUT},
    {92, "chown", -1, -1, 0, -2, -1, F_SCHED | F_MUT},
    {93, "fchown", 0, -2, -1, -2, -1, F_SCHED | F_MUT},
    {94, "lchown", -1, -1, 0, -2, -1, F_SCHED | F_MUT},
    {95, "umask", -1, -2, -1, -2, -1, 0},
    {133, "mknod", -1, -1, 0, -2, -1, F_SCHED | F_MUT},
    {188, "setxattr", -1, -1, 0, -2, -1, F_SCHED | F_MUT},
    {189, "lsetxattr", -1, -1, 0, -2, -1, F_SCHED | F_MUT},
    {190, "fsetxattr", 0, -2, -1, -2, -1, F_SCHED | F_MUT},
    {191, "getxattr", -1, -1, 0, -2, -1, F_SCHED},
    {192, "lgetxattr", -1, -1, 0, -2, -1, F_SCHED},
    {193, "fgetxattr", 0, -2, -1, -2, -1, F_SCHED},
    {194, "listxattr", -1, -1, 0, -2, -1, F_SCHED},
    {195, "llistxattr", -1, -1, 0, -2, -1, F_SCHED},
    {196, "flistxattr", 0, -2, -1, -2, -1, F_SCHED},
    {197, "removexattr", -1, -1, 0, -2, -1, F_SCHED | F_MUT},
    {198, "lremovexattr", -1, -1, 0, -2, -1, F_SCHED | F_MUT},
    {199, "fremovexattr", 0, -2, -1, -2, -1, F_SCHED | F_MUT},
    {202, "futex", -1, -2, -1, -2, -1, F_BLOCK},
    {217, "getdents64", 0, -2, -1, -2, -1, F_SCHED},
    {230, "clock_nanosleep", -1, -2, -1, -2, -1, 0},
    {231, "exit_group", -1, -2, -1, -2, -1, 0},
    {232, "epoll_wait", -1, -2, -1, -2, -1, F_BLOCK},
    {257, "openat", -1, 0, 1, -2, -1, F_SCHED | F_BLOCK},
    {258, "mkdirat", -1, 0, 1, -2, -1, F_SCHED | F_MUT},
    {259, "mknodat", -1, 0, 1, -2, -1, F_SCHED | F_MUT},
    {260, "fchownat", -1, 0, 1, -2, -1, F_SCHED | F_MUT},
    {262, "newfstatat", -1, 0, 1, -2, -1, F_SCHED},
    {263, "unlinkat", -1, 0, 1, -2, -1, F_SCHED | F_MUT},
    {264, "renameat", -1, 0, 1, 2, 3, F_SCHED | F_MUT},
    {265, "linkat", -1, 0, 1, 2, 3, F_SCHED | F_MUT},
    {266, "symlinkat", -1, 1, 2, -2, -1, F_SCHED | F_MUT}, /* primary = linkpath */
    {267, "readlinkat", -1, 0, 1, -2, -1, F_SCHED},
    {268, "fchmodat", -1, 0, 1, -2, -1, F_SCHED | F_MUT},
    {269, "faccessat", -1, 0, 1, -2, -1, F_SCHED},
    {271, "ppoll", -1, -2, -1, -2, -1, F_BLOCK},
    {280, "utimensat", -1, 0, 1, -2, -1, F_SCHED | F_MUT},
    {285, "fallocate", 0, -2, -1, -2, -1, F_SCHED | F_MUT},
    {290, "eventfd2", -1, -2, -1, -2, -1, 0},
    {291, "epoll_create1", -1, -2, -1, -2, -1, 0},
    {292, "dup3", 0, -2, -1, -2, -1, 0},
    {293, "pipe2", -1, -2, -1, -2, -1, 0},
    {316, "renameat2", -1, 0, 1, 2, 3, F_SCHED | F_MUT},
    {319, "memfd_create", -1, -2, -1, -2, -1, 0},
    {326, "copy_file_range", 2, -2, -1, -2, -1, F_SCHED | F_IO | F_MUT}, /* primary fd = fd_out */
    {332, "statx", -1, 0, 1, -2, -1, F_SCHED},
    {435, "clone3", -1, -2, -1, -2, -1, 0},
    {437, "openat2", -1, 0, 1, -2, -1, F_SCHED | F_BLOCK},
    {439, "faccessat2", -1, 0, 1, -2, -1, F_SCHED},
    {452, "fchmodat2", -1, 0, 1, -2, -1, F_SCHED | F_MUT},
};
#define NSYS (sizeof(systab) / sizeof(systab[0]))
static const struct sysent *sysidx[512];

/* ------------------------------------------------------------------ */
/* state                                                               */

enum tstate { T_FREE = 0, T_RUN, T_BLOCKED, T_HELD, T_DEAD };

struct pend { /* decoded info about the syscall in progress */
    long nr;
    unsigned long a[6];
    const struct sysent *se;
    char path[PATHMAX];
    int have_path;
    char path2[PATHMAX];
    int have_path2;
    int fd;
    int fd2;       /* copy_file_range fd_in / ioctl FICLONE src fd */
    int rule;      /* rule index applied at enter, or -1 */
    int fault_errno; /* >0: set ret=-errno at exit */
    long force_ret;  /* used with force */
    int force;
    int kill_after;
    int gate;
    unsigned long origlen; /* original length when shortened */
    int shortened;
};

struct thr {
    pid_t tid;
    pid_t parent;
    int state;
    int insys;
    int role;      /* index into role names */
    int nchildren;
    int seen;      /* has had first stop */
    double prio;
    struct pend p;
    struct timespec held_at;
    unsigned long held_seq;
    int untimed;   /* blocked in an untimed blocking call */
    unsigned long fail_sig; unsigned long fail_repeat;   /* same failing call over and over (slow spin) */
    int want_release_delay_us; /* jitter */
    int gate;      /* rule index of an A_HOLD gate this thread waits at, or -1 */
    unsigned long nsys;
};

static const char *role_names[] = {"main", "copy", "walker", "dispatcher", "worker", "other"};
enum { R_MAIN = 0, R_COPY, R_WALKER, R_DISPATCHER, R_WORKER, R_OTHER, NROLES };

struct fdent {
    int open;
    char *path;
    unsigned long dev, ino;
    unsigned mode;
};

enum { A_FAULT = 1, A_SHORT, A_KILL, A_CLONEOK, A_NOTE, A_RETVAL, A_HOLD, A_TRUNC };
enum { L_ONE = 1, L_MINUS1, L_HALF, L_RAND, L_CAP };

struct rule {
    char id[64];
    char sys[32];
    int have_path; char path[PATHMAX];
    int have_under; char under[PATHMAX];
    int have_suffix; char suffix[PATHMAX];
    char target[PATHMAX];   /* A_TRUNC: the file the supervisor truncates to `retval` bytes when the rule fires */
    unsigned long iocmd; int have_iocmd;
    int nth;     /* exact occurrence (1-based); 0 = any */
    int from;    /* occurrences >= from */
    int upto;    /* occurrences <= upto (0 = no limit) */
    int when_exit; /* for kill: at exit stop */
    int action;
    int err;
    long retval;
    int lenpol; unsigned long lencap;
    int role;    /* -1 any */
    int minlen;  /* only shorten when len > minlen */
    unsigned long matches, applied, done;
    char until[64]; int until_idx; int count; long maxwait_ms;
};

static struct thr thr[MAXTHREADS];
static int nthr_live = 0;
static struct fdent *fdt;
static int fd_open_count = 0, fd_peak = 0, fd_mismatch = 0;
static unsigned long n_emfile = 0, n_opens = 0;
static unsigned long fd_checks = 0;
static struct rule rules[MAXRULES];
static int nrules = 0;

static pid_t root_pid = -1;
static unsigned long seq = 0;
static unsigned long nstops = 0;
static FILE *logf = NULL;
static int log_mode = 2; /* 0 none, 1 min (F_SCHED syscalls only), 2 full */

/* plan */
static char p_cwd[PATHMAX] = "";
static int p_umask = -1;
static long p_nofile = -1;
static char p_stdout[PATHMAX] = "", p_stderr[PATHMAX] = "", p_stdin[PATHMAX] = "";
static long p_wall_ms = 120000, p_cpu_ms = 60000;
static unsigned long p_max_steps = 5000000;
static unsigned long p_max_repeat = 3000;
static int p_marker_fd = -1;
static int p_driver = 0; /* 0 none, 1 parfile, 2 parblock */
static int p_roles_probe = 0;
enum { S_FREE = 0, S_PCT, S_ROLE, S_LIFO, S_JITTER };
static int p_sched = S_FREE;
static unsigned long p_sched_seed = 1;
static int p_sched_d = 2;
static long p_sched_cap_us = 3000;
static int p_jitter_permille = 200;
static long p_jitter_max_us = 2000;
static int p_role_rank[NROLES] = {0, 0, 0, 0, 0, 0};
static unsigned long p_pct_horizon = 400;
static long p_deadlock_ms = 3000;
static char *envs[256]; static int nenvs = 0;

static unsigned long pct_change[16]; static int pct_nchange = 0; static int pct_drops = 0;
static unsigned long sched_steps = 0, holds = 0, cap_releases = 0;

static const char *sumfn_global = NULL;
static void write_summary(const char *fn, int exited, int status, int sig);
static const char *verdict = "running";
static char verdict_detail[512] = "";
static int kill_delivered = 0;
static char kill_site[128] = "";
static struct timespec t_start, t_last_event;
static volatile sig_atomic_t tick = 0;

/* ------------------------------------------------------------------ */
/* util                                                                */

static uint64_t rng_state;
static uint64_t rng_next(void)
{
    /* splitmix64 */
    uint64_t z = (rng_state += 0x9E3779B97F4A7C15ULL);
    z = (z ^ (z >> 30)) * 0xBF58476D1CE4E5B9ULL;
    z = (z ^ (z >> 27)) * 0x94D049BB133111EBULL;
    return z ^ (z >> 31);
}
static double rng_unit(void) { return (rng_next() >> 11) * (1.0 / 9007199254740992.0); }

static double ts_ms(const struct timespec *a, const struct timespec *b)
{
    return (b->tv_sec - a->tv_sec) * 1000.0 + (b->tv_nsec - a->tv_nsec) / 1e6;
}
static void now(struct timespec *t) { clock_gettime(CLOCK_MONOTONIC, t); }

static void die(const char *fmt, ...)
{
    va_list ap; va_start(ap, fmt);
    fprintf(stderr, "xsup: "); vfprintf(stderr, fmt, ap); fprintf(stderr, "\n");
    va_end(ap);
    if (root_pid > 0) kill(root_pid, SIGKILL);
    exit(3);
}

static int unhex(const char *h, char *out, size_t cap)
{
    size_t n = strlen(h);
    if (n % 2 || n / 2 >= cap) return -1;
    for (size_t i = 0; i < n / 2; i++) {
        unsigned v;
        if (sscanf(h + 2 * i, "%2x", &v) != 1) return -1;
        out[i] = (char)v;
    }
    out[n / 2] = 0;
    return 0;
}

static void json_str(FILE *f, const char *s)
{
    fputc('"', f);
    for (const unsigned char *p = (const unsigned char *)s; *p; p++) {
        if (*p == '"' || *p == '\\') { fputc('\\', f); fputc(*p, f); }
        else if (*p < 0x20 || *p >= 0x7f) fprintf(f, "\\u%04x", *p);
        else fputc(*p, f);
    }
    fputc('"', f);
}

static int read_mem(pid_t tid, unsigned long addr, void *buf, size_t len)
{
    struct iovec l = {buf, len}, r = {(void *)addr, len};
    ssize_t n = process_vm_readv(tid, &l, 1, &r, 1, 0);
    return n == (ssize_t)len ? 0 : -1;
}

static int read_cstr(pid_t tid, unsigned long addr, char *out, size_t cap)
{
    size_t got = 0;
    if (!addr) { out[0] = 0; return -1; }
    while (got < cap - 1) {
        /* read up to the end of the page */
        size_t chunk = 4096 - ((addr + got) & 4095);
        if (chunk > cap - 1 - got) chunk = cap - 1 - got;
        struct iovec l = {out + got, chunk}, r = {(void *)(addr + got), chunk};
        ssize_t n = process_vm_readv(tid, &l, 1, &r, 1, 0);
        if (n <= 0) { out[got] = 0; return got ? 0 : -1; }
        for (ssize_t i = 0; i < n; i++)
            if (out[got + i] == 0) return 0;
        got += n;
    }
    out[cap - 1] = 0;
    return 0;
}

/* ------------------------------------------------------------------ */
/* threads                                                             */

static struct thr *find_thr(pid_t tid)
{
    unsigned h = (unsigned)tid % MAXTHREADS;
    for (int i = 0; i < MAXTHREADS; i++) {
        struct thr *t = &thr[(h + i) % MAXTHREADS];
        if (t->state != T_FREE && t->tid == tid) return t;
        if (t->state == T_FREE) return NULL;
    }
    return NULL;
}

static struct thr *add_thr(pid_t tid)
{
    unsigned h = (unsigned)tid % MAXTHREADS;
    for (int i = 0; i < MAXTHREADS; i++) {
        struct thr *t = &thr[(h + i) % MAXTHREADS];
        if (t->state == T_FREE) {
            memset(t, 0, sizeof *t);
            t->tid = tid; t->state = T_RUN; t->role = R_OTHER; t->parent = 0;
            t->p.rule = -1;
            t->gate = -1;
            t->prio = rng_unit();
            nthr_live++;
            return t;
        }
    }
    die("thread table full");
    return NULL;
}

static void assign_role(struct thr *child, struct thr *parent)
{
    int k = parent->nchildren++;
    child->parent = parent->tid;
    int r = R_OTHER;
    if (p_driver) {
        if (parent->role == R_MAIN) r = (k == 0) ? R_COPY : R_OTHER;
        else if (parent->role == R_COPY) {
            if (p_driver == 1) r = (k == 0) ? R_WALKER : R_WORKER;
            else r = (k == 0) ? R_DISPATCHER : (k == 1 ? R_WALKER : R_OTHER);
        } else if (parent->role == R_DISPATCHER) r = R_WORKER;
        else if (parent->role == R_WORKER) r = R_WORKER; /* pool respawn */
    }
    child->role = r;
}

/* ------------------------------------------------------------------ */
/* fd table                                                            */

static void fd_set_open(pid_t tid, int fd, const char *path)
{
    if (fd < 0 || fd >= MAXFD) return;
    struct fdent *e = &fdt[fd];
    if (!e->open) { fd_open_count++; if (fd_open_count > fd_peak) fd_peak = fd_open_count; }
    e->open = 1;
    free(e->path);
    e->path = path ? strdup(path) : NULL;
    char pp[64]; struct stat st;
    snprintf(pp, sizeof pp, "/proc/%d/fd/%d", tid, fd);
    if (stat(pp, &st) == 0) { e->dev = st.st_dev; e->ino = st.st_ino; e->mode = st.st_mode; }
    else { e->dev = e->ino = 0; e->mode = 0; }
}

static void fd_set_closed(int fd)
{
    if (fd < 0 || fd >= MAXFD) return;
    struct fdent *e = &fdt[fd];
    if (e->open) fd_open_count--;
    e->open = 0;
    free(e->path); e->path = NULL;
}

#include <dirent.h>
static void fd_crosscheck(pid_t pid)
{
    char pp[64]; snprintf(pp, sizeof pp, "/proc/%d/fd", pid);
    DIR *d = opendir(pp);
    if (!d) return;
    int n = 0; struct dirent *de;
    while ((de = readdir(d))) if (de->d_name[0] != '.') n++;
    closedir(d);
    fd_checks++;
    if (n != fd_open_count) {
        /* resynchronise: racy by nature (other threads run), tolerate +-workers */
        int diff = n - fd_open_count; if (diff < 0) diff = -diff;
        if (diff > 80) fd_mismatch++;
    }
}

/* ------------------------------------------------------------------ */
/* plan                                                                */

static int role_by_name(const char *s)
{
    for (int i = 0; i < NROLES; i++) if (!strcmp(s, role_names[i])) return i;
    return -1;
}

static void parse_rule(char *line)
{
    if (nrules >= MAXRULES) die("too many rules");
    struct rule *r = &rules[nrules++];
    memset(r, 0, sizeof *r);
    r->role = -1;
    char *save = NULL;
    char *tok = strtok_r(line, " \t\n", &save);
    if (!tok) die("rule without id");
    snprintf(r->id, sizeof r->id, "%s", tok);
    while ((tok = strtok_r(NULL, " \t\n", &save))) {
        char *eq = strchr(tok, '=');
        if (!eq) die("bad rule token %s", tok);
        *eq = 0; const char *k = tok, *v = eq + 1;
        if (!strcmp(k, "sys")) snprintf(r->sys, sizeof r->sys, "%s", v);
        else if (!strcmp(k, "path")) { if (unhex(v, r->path, sizeof r->path)) die("bad hex"); r->have_path = 1; }
        else if (!strcmp(k, "under")) { if (unhex(v, r->under, sizeof r->under)) die("bad hex"); r->have_under = 1; }
        else if (!strcmp(k, "suffix")) { if (unhex(v, r->suffix, sizeof r->suffix)) die("bad hex"); r->have_suffix = 1; }
        else if (!strcmp(k, "target")) { if (unhex(v, r->target, sizeof r->target)) die("bad hex"); }
        else if (!strcmp(k, "iocmd")) { r->iocmd = strtoul(v, NULL, 0); r->have_iocmd = 1; }
        else if (!strcmp(k, "nth")) r->nth = atoi(v);
        else if (!strcmp(k, "from")) r->from = atoi(v);
        else if (!strcmp(k, "upto")) r->upto = atoi(v);
        else if (!strcmp(k, "when")) r->when_exit = !strcmp(v, "exit");
        else if (!strcmp(k, "errno")) r->err = atoi(v);
        else if (!strcmp(k, "minlen")) r->minlen = atoi(v);
        else if (!strcmp(k, "val")) r->retval = atol(v);
        else if (!strcmp(k, "until")) snprintf(r->until, sizeof r->until, "%s", v);
        else if (!strcmp(k, "count")) r->count = atoi(v);
        else if (!strcmp(k, "maxwait_ms")) r->maxwait_ms = atol(v);
        else if (!strcmp(k, "role")) r->role = role_by_name(v);
        else if (!strcmp(k, "action")) {
            if (!strcmp(v, "fault")) r->action = A_FAULT;
            else if (!strcmp(v, "short")) r->action = A_SHORT;
            else if (!strcmp(v, "kill")) r->action = A_KILL;
            else if (!strcmp(v, "cloneok")) r->action = A_CLONEOK;
            else if (!strcmp(v, "note")) r->action = A_NOTE;
            else if (!strcmp(v, "retval")) r->action = A_RETVAL;
            else if (!strcmp(v, "hold")) r->action = A_HOLD;
            else if (!strcmp(v, "trunc")) r->action = A_TRUNC;
            else die("bad action %s", v);
        } else if (!strcmp(k, "len")) {
            if (!strcmp(v, "one")) r->lenpol = L_ONE;
            else if (!strcmp(v, "minus1")) r->lenpol = L_MINUS1;
            else if (!strcmp(v, "half")) r->lenpol = L_HALF;
            else if (!strcmp(v, "rand")) r->lenpol = L_RAND;
            else if (!strncmp(v, "cap:", 4)) { r->lenpol = L_CAP; r->lencap = strtoul(v + 4, NULL, 0); }
            else die("bad len policy %s", v);
        } else die("bad rule key %s", k);
    }
    if (!r->action) die("rule %s without action", r->id);
}

static void parse_plan(const char *fn)
{
    FILE *f = fopen(fn, "r");
    if (!f) die("cannot open plan %s", fn);
    char *line = NULL; size_t cap = 0;
    while (getline(&line, &cap, f) > 0) {
        char *s = line;
        while (*s == ' ') s++;
        if (*s == '#' || *s == '\n' || !*s) continue;
        char *nl = strchr(s, '\n'); if (nl) *nl = 0;
        char *sp = strchr(s, ' ');
        const char *v = "";
        if (sp) { *sp = 0; v = sp + 1; }
        if (!strcmp(s, "cwd")) { if (unhex(v, p_cwd, sizeof p_cwd)) die("bad cwd"); }
        else if (!strcmp(s, "umask")) p_umask = (int)strtol(v, NULL, 8);
        else if (!strcmp(s, "nofile")) p_nofile = atol(v);
        else if (!strcmp(s, "stdout")) { if (unhex(v, p_stdout, sizeof p_stdout)) die("bad stdout"); }
        else if (!strcmp(s, "stderr")) { if (unhex(v, p_stderr, sizeof p_stderr)) die("bad stderr"); }
        else if (!strcmp(s, "stdin")) { if (unhex(v, p_stdin, sizeof p_stdin)) die("bad stdin"); }
        else if (!strcmp(s, "env")) { char b[PATHMAX]; if (unhex(v, b, sizeof b)) die("bad env"); if (nenvs < 255) envs[nenvs++] = strdup(b); }
        else if (!strcmp(s, "wall_ms")) p_wall_ms = atol(v);
        else if (!strcmp(s, "cpu_ms")) p_cpu_ms = atol(v);
        else if (!strcmp(s, "deadlock_ms")) p_deadlock_ms = atol(v);
        else if (!strcmp(s, "max_steps")) p_max_steps = strtoul(v, NULL, 0);
        else if (!strcmp(s, "max_repeat")) p_max_repeat = strtoul(v, NULL, 0);
        else if (!strcmp(s, "marker_fd")) p_marker_fd = atoi(v);
        else if (!strcmp(s, "log_mode")) log_mode = !strcmp(v, "none") ? 0 : !strcmp(v, "min") ? 1 : 2;
        else if (!strcmp(s, "driver")) p_driver = !strcmp(v, "parfile") ? 1 : !strcmp(v, "parblock") ? 2 : 0;
        else if (!strcmp(s, "roles_probe")) p_roles_probe = atoi(v);
        else if (!strcmp(s, "sched")) {
            p_sched = !strcmp(v, "pct") ? S_PCT : !strcmp(v, "role") ? S_ROLE : !strcmp(v, "lifo") ? S_LIFO
                    : !strcmp(v, "jitter") ? S_JITTER : S_FREE;
        }
        else if (!strcmp(s, "sched_seed")) p_sched_seed = strtoul(v, NULL, 0);
        else if (!strcmp(s, "sched_d")) p_sched_d = atoi(v);
        else if (!strcmp(s, "sched_cap_us")) p_sched_cap_us = atol(v);
        else if (!strcmp(s, "pct_horizon")) p_pct_horizon = strtoul(v, NULL, 0);
        else if (!strcmp(s, "jitter")) { sscanf(v, "%d %ld", &p_jitter_permille, &p_jitter_max_us); }
        else if (!strcmp(s, "role_order")) {
            /* comma list, highest priority first */
            char b[256]; snprintf(b, sizeof b, "%s", v);
            int rank = NROLES + 1; char *sv = NULL;
            for (char *t = strtok_r(b, ",", &sv); t; t = strtok_r(NULL, ",", &sv)) {
                int r = role_by_name(t); if (r < 0) die("bad role %s", t);
                p_role_rank[r] = rank--;
            }
        }
        else if (!strcmp(s, "rule")) { char b[3 * PATHMAX]; snprintf(b, sizeof b, "%s", v); parse_rule(b); }
        else die("bad plan directive %s", s);
    }
    free(line);
    fclose(f);
}

/* ------------------------------------------------------------------ */
/* decoding                                                            */

static void resolve_path(pid_t tid, int dirfd_idx, int path_idx, const unsigned long *a, char *out, int *have)
{
    char raw[PATHMAX];
    *have = 0; out[0] = 0;
    if (path_idx < 0) return;
    if (read_cstr(tid, a[path_idx], raw, 4097) != 0) return;
    *have = 1;
    if (raw[0] == '/') { snprintf(out, PATHMAX, "%s", raw); return; }
    int dfd = -100;
    if (dirfd_idx >= 0) dfd = (int)a[dirfd_idx];
    if (dirfd_idx < 0 || dfd == AT_FDCWD) {
        if (raw[0]) snprintf(out, PATHMAX, "%s/%s", p_cwd, raw);
        else snprintf(out, PATHMAX, "%s", p_cwd);
        return;
    }
    if (dfd >= 0 && dfd < MAXFD && fdt[dfd].open && fdt[dfd].path) {
        if (raw[0]) snprintf(out, PATHMAX, "%s/%s", fdt[dfd].path, raw);
        else snprintf(out, PATHMAX, "%s", fdt[dfd].path); /* AT_EMPTY_PATH */
        return;
    }
    snprintf(out, PATHMAX, "<fd%d>/%s", dfd, raw);
}

static void decode_enter(struct thr *t, long nr, const unsigned long *a)
{
    struct pend *p = &t->p;
    p->nr = nr;
    memcpy(p->a, a, sizeof p->a);
    p->se = (nr >= 0 && nr < 512) ? sysidx[nr] : NULL;
    p->have_path = p->have_path2 = 0;
    p->path[0] = p->path2[0] = 0;
    p->fd = p->fd2 = -1;
    p->rule = -1; p->fault_errno = 0; p->force = 0; p->kill_after = 0; p->shortened = 0; p->gate = -1;
    if (!p->se) return;
    const struct sysent *se = p->se;
    if (se->patharg >= 0) resolve_path(t->tid, se->dirfd, se->patharg, a, p->path, &p->have_path);
    if (se->patharg2 >= 0) resolve_path(t->tid, se->dirfd2, se->patharg2, a, p->path2, &p->have_path2);
    if (se->nr == 88 /* symlink(target, linkpath) */) { char raw[PATHMAX]; if (!read_cstr(t->tid, a[0], raw, 4097)) { snprintf(p->path2, PATHMAX, "%s", raw); p->have_path2 = 1; } }
    if (se->nr == 266) { char raw[PATHMAX]; if (!read_cstr(t->tid, a[0], raw, 4097)) { snprintf(p->path2, PATHMAX, "%s", raw); p->have_path2 = 1; } }
    if (se->fdarg >= 0) p->fd = (int)a[se->fdarg];
    if (se->nr == 280 && a[1] == 0) { /* futimens(fd): utimensat(fd, NULL, ...) */
        p->fd = (int)a[0];
        p->have_path = 0;
    }
    if (se->nr == 326) p->fd2 = (int)a[0];
    if (se->nr == 16 && (a[1] == FICLONE_CMD)) p->fd2 = (int)a[2];
}

static const char *fd_path(int fd)
{
    if (fd >= 0 && fd < MAXFD && fdt[fd].open && fdt[fd].path) return fdt[fd].path;
    return NULL;
}

/* ------------------------------------------------------------------ */
/* logging                                                             */

static void log_event(struct thr *t, int is_exit, long ret, const char *act, const char *ruleid)
{
    struct pend *p = &t->p;
    seq++;
    if (!logf || log_mode == 0) return;
    if (log_mode == 1 && !(p->se && (p->se->flags & F_SCHED))) return;
    fprintf(logf, "{\"seq\":%lu,\"tid\":%d,\"role\":\"%s\",\"ph\":\"%c\",", seq, t->tid, role_names[t->role], is_exit ? 'X' : 'E');
    if (p->se) fprintf(logf, "\"sys\":\"%s\"", p->se->name);
    else fprintf(logf, "\"sys\":\"#%ld\"", p->nr);
    fprintf(logf, ",\"a\":[%lu,%lu,%lu,%lu,%lu,%lu]", p->a[0], p->a[1], p->a[2], p->a[3], p->a[4], p->a[5]);
    if (p->have_path) { fputs(",\"path\":", logf); json_str(logf, p->path); }
    if (p->have_path2) { fputs(",\"path2\":", logf); json_str(logf, p->path2); }
    if (p->fd >= 0) {
        fprintf(logf, ",\"fd\":%d", p->fd);
        const char *fp = fd_path(p->fd);
        if (fp) { fputs(",\"fdpath\":", logf); json_str(logf, fp); }
        if (p->fd < MAXFD && fdt[p->fd].open) fprintf(logf, ",\"ino\":\"%lu:%lu\",\"fmode\":%u", fdt[p->fd].dev, fdt[p->fd].ino, fdt[p->fd].mode);
    }
    if (p->fd2 >= 0) {
        fprintf(logf, ",\"fd2\":%d", p->fd2);
        const char *fp = fd_path(p->fd2);
        if (fp) { fputs(",\"fd2path\":", logf); json_str(logf, fp); }
        if (p->fd2 < MAXFD && fdt[p->fd2].open) fprintf(logf, ",\"ino2\":\"%lu:%lu\"", fdt[p->fd2].dev, fdt[p->fd2].ino);
    }
    if (is_exit) fprintf(logf, ",\"ret\":%ld", ret);
    if (p->shortened) fprintf(logf, ",\"origlen\":%lu", p->origlen);
    if (act) fprintf(logf, ",\"act\":\"%s\"", act);
    if (ruleid) fprintf(logf, ",\"rule\":\"%s\"", ruleid);
    if (!is_exit && p_marker_fd >= 0 && p->se && p->se->nr == 1 && p->fd == p_marker_fd) {
        char buf[512]; size_t n = p->a[2] < sizeof buf - 1 ? p->a[2] : sizeof buf - 1;
        if (read_mem(t->tid, p->a[1], buf, n) == 0) { buf[n] = 0; fputs(",\"data\":", logf); json_str(logf, buf); }
    }
    fputs("}\n", logf);
}

static void log_note(const char *kind, pid_t tid, const char *detail)
{
    if (!logf || log_mode == 0) return;
    seq++;
    fprintf(logf, "{\"seq\":%lu,\"tid\":%d,\"ph\":\"N\",\"sys\":\"%s\",\"detail\":", seq, tid, kind);
    json_str(logf, detail ? detail : "");
    fputs("}\n", logf);
}

/* ------------------------------------------------------------------ */
/* rules                                                               */

static int ends_with(const char *s, const char *suf)
{
    size_t a = strlen(s), b = strlen(suf);
    return a >= b && !memcmp(s + a - b, suf, b);
}

static int path_match(const struct rule *r, const char *s)
{
    if (!s) return 0;
    if (r->have_path && strcmp(r->path, s)) return 0;
    if (r->have_under && strncmp(r->under, s, strlen(r->under))) return 0;
    if (r->have_suffix && !ends_with(s, r->suffix)) return 0;
    return 1;
}

static int rule_matches(const struct rule *r, struct thr *t)
{
    struct pend *p = &t->p;
    if (!p->se) return 0;
    if (strcmp(r->sys, p->se->name) && strcmp(r->sys, "*")) return 0;
    if (r->role >= 0 && r->role != t->role) return 0;
    if (r->have_iocmd && !(p->se->nr == 16 && p->a[1] == r->iocmd)) return 0;
    if (r->have_path || r->have_under || r->have_suffix) {
        int ok = 0;
        if (p->have_path && path_match(r, p->path)) ok = 1;
        if (!ok && p->se->patharg2 >= 0 && p->have_path2 && path_match(r, p->path2)) ok = 1;
        if (!ok && p->fd >= 0 && path_match(r, fd_path(p->fd))) ok = 1;
        if (!ok && p->fd2 >= 0 && path_match(r, fd_path(p->fd2))) ok = 1;
        if (!ok) return 0;
    }
    return 1;
}

/* which register holds the length for shortenable calls */
static unsigned long *len_reg(struct user_regs_struct *regs, long nr)
{
    switch (nr) {
    case 0: case 1: case 17: case 18: return (unsigned long *)&regs->rdx;
    case 326: return (unsigned long *)&regs->r8;
    }
    return NULL;
}

static void emulate_clone(struct thr *t)
{
    /* FICLONE: ioctl(dst_fd, FICLONE, src_fd). Copy src -> dst via /proc. */
    struct pend *p = &t->p;
    char ps[64], pd[64];
    snprintf(ps, sizeof ps, "/proc/%d/fd/%d", t->tid, (int)p->a[2]);
    snprintf(pd, sizeof pd, "/proc/%d/fd/%d", t->tid, (int)p->a[0]);
    int s = open(ps, O_RDONLY), d = open(pd, O_WRONLY);
    long rc = 0;
    if (s < 0 || d < 0) rc = -EBADF;
    else {
        struct stat st; fstat(s, &st);
        if (ftruncate(d, 0) || ftruncate(d, st.st_size)) rc = -EIO;
        off_t pos = 0;
        char *buf = malloc(1 << 20);
        while (rc == 0 && pos < st.st_size) {
            off_t data = lseek(s, pos, SEEK_DATA);
            if (data < 0) break;
            off_t hole = lseek(s, data, SEEK_HOLE);
            if (hole < 0) hole = st.st_size;
            off_t o = data;
            while (o < hole) {
                size_t want = (size_t)(hole - o) < (1u << 20) ? (size_t)(hole - o) : (1u << 20);
                ssize_t n = pread(s, buf, want, o);
                if (n <= 0) { rc = -EIO; break; }
                if (pwrite(d, buf, n, o) != n) { rc = -EIO; break; }
                o += n;
            }
            pos = hole;
        }
        free(buf);
    }
    if (s >= 0) close(s);
    if (d >= 0) close(d);
    p->force = 1; p->force_ret = rc;
}

static void do_kill(const char *site)
{
    if (kill_delivered) return;
    kill_delivered = 1;
    snprintf(kill_site, sizeof kill_site, "%s", site);
    kill(root_pid, SIGKILL);
}

/* returns 1 if the process was killed */
static int apply_rules_enter(struct thr *t, struct user_regs_struct *regs, const char **act, const char **rid)
{
    struct pend *p = &t->p;
    for (int i = 0; i < nrules; i++) {
        struct rule *r = &rules[i];
        if (!rule_matches(r, t)) continue;
        if (r->action == A_SHORT) {
            unsigned long *lr = len_reg(regs, p->nr);
            if (!lr || *lr <= 1 || (long)*lr <= r->minlen) continue; /* not shortenable: does not count */
        }
        r->matches++;
        if (r->nth && (int)r->matches != r->nth) continue;
        if (r->from && (int)r->matches < r->from) continue;
        if (r->upto && (int)r->matches > r->upto) continue;
        if (p->rule >= 0) continue; /* one action per call */
        switch (r->action) {
        case A_FAULT:
            p->rule = i; p->fault_errno = r->err; r->applied++;
            regs->orig_rax = (unsigned long)-1;
            ptrace(PTRACE_SETREGS, t->tid, 0, regs);
            *act = "fault"; *rid = r->id;
            break;
        case A_SHORT: {
            unsigned long *lr = len_reg(regs, p->nr);
            unsigned long len = *lr, nl = len;
            switch (r->lenpol) {
            case L_ONE: nl = 1; break;
            case L_MINUS1: nl = len - 1; break;
            case L_HALF: nl = len / 2; break;
            case L_RAND: nl = 1 + (unsigned long)(rng_unit() * (double)(len - 1)); if (nl >= len) nl = len - 1; break;
            case L_CAP: nl = r->lencap < len ? r->lencap : len; break;
            }
            if (nl < 1) nl = 1;
            if (nl < len) {
                p->rule = i; p->origlen = len; p->shortened = 1; r->applied++;
                *lr = nl;
                ptrace(PTRACE_SETREGS, t->tid, 0, regs);
                *act = "short"; *rid = r->id;
            }
            break;
        }
        case A_RETVAL:
            /* the call is not executed; it "returns" val (e.g. 0 = end of file for copy_file_range/read) */
            p->rule = i; r->applied++;
            regs->orig_rax = (unsigned long)-1;
            ptrace(PTRACE_SETREGS, t->tid, 0, regs);
            p->force = 1; p->force_ret = r->retval;
            *act = "retval"; *rid = r->id;
            break;
        case A_CLONEOK:
            p->rule = i; r->applied++;
            regs->orig_rax = (unsigned long)-1;
            ptrace(PTRACE_SETREGS, t->tid, 0, regs);
            emulate_clone(t);
            *act = "cloneok"; *rid = r->id;
            break;
        case A_KILL:
            p->rule = i; r->applied++;
            if (r->when_exit) { p->kill_after = 1; *act = "kill-after-armed"; *rid = r->id; }
            else { *act = "kill-before"; *rid = r->id; log_event(t, 0, 0, *act, *rid); do_kill(r->id); return 1; }
            break;
        case A_NOTE:
            p->rule = i; r->applied++; *act = "note"; *rid = r->id;
            if (!r->when_exit) r->done++;
            break;
        case A_TRUNC:
            /* interference from outside the process: another program truncates `target` just before this call runs */
            p->rule = i; *act = "trunc"; *rid = r->id;
            if (truncate(r->target, (off_t)r->retval) == 0) r->applied++;
            break;
        case A_HOLD:
            /* gate: this call may not start before rule `until` has completed `count` times */
            r->applied++; p->gate = i; *act = "gate"; *rid = r->id;
            break;
        }
    }
    return 0;
}

/* ------------------------------------------------------------------ */
/* scheduler                                                           */

static double eff_prio(struct thr *t)
{
    if (p_sched == S_ROLE) return p_role_rank[t->role] * 10.0 + t->prio;
    if (p_sched == S_LIFO) return (double)t->held_seq; /* most recently held first */
    return t->prio;
}

static void resume_thr(struct thr *t)
{
    t->state = (t->insys && t->p.se && (t->p.se->flags & F_BLOCK)) ? T_BLOCKED : T_RUN;
    if (ptrace(PTRACE_SYSCALL, t->tid, 0, 0) < 0 && errno != ESRCH)
        die("PTRACE_SYSCALL %d: %s", t->tid, strerror(errno));
}

static int should_hold(struct thr *t)
{
    if (p_sched == S_FREE) return 0;
    if (!(t->p.se && (t->p.se->flags & F_SCHED))) return 0;
    /* only calls touching the sandbox (or fds) are scheduling points */
    sched_steps++;
    if (p_sched == S_PCT) {
        for (int i = 0; i < pct_nchange; i++)
            if (pct_change[i] == sched_steps) { t->prio = -1.0 - (++pct_drops); }
    }
    if (p_sched == S_JITTER) {
        if ((int)(rng_next() % 1000) < p_jitter_permille) {
            t->want_release_delay_us = 1 + (int)(rng_next() % (unsigned long)p_jitter_max_us);
            return 1;
        }
        return 0;
    }
    return 1;
}

static unsigned long gate_timeouts = 0;
static void decide_release(void)
{
    struct timespec tn; now(&tn);
    for (int i = 0; i < MAXTHREADS; i++) {
        struct thr *t = &thr[i];
        if (t->state != T_HELD || t->gate < 0) continue;
        struct rule *g = &rules[t->gate];
        int open = g->until_idx < 0 || rules[g->until_idx].done >= (unsigned long)(g->count ? g->count : 1);
        int late = ts_ms(&t->held_at, &tn) > (g->maxwait_ms ? g->maxwait_ms : 300);
        if (open || late) { if (late && !open) gate_timeouts++; t->gate = -1; resume_thr(t); }
    }
    if (p_sched == S_FREE) return;
    if (p_sched == S_JITTER) {
        for (int i = 0; i < MAXTHREADS; i++) {
            struct thr *t = &thr[i];
            if (t->state == T_HELD && t->gate < 0 && ts_ms(&t->held_at, &tn) * 1000.0 >= t->want_release_delay_us) resume_thr(t);
        }
        return;
    }
    /* priority policies */
    for (;;) {
        struct thr *best_held = NULL; double best_run = -1e18; int nrun = 0;
        for (int i = 0; i < MAXTHREADS; i++) {
            struct thr *t = &thr[i];
            if (t->state == T_HELD && t->gate >= 0) continue;
            if (t->state == T_HELD) { if (!best_held || eff_prio(t) > eff_prio(best_held)) best_held = t; }
            else if (t->state == T_RUN) { nrun++; if (eff_prio(t) > best_run) best_run = eff_prio(t); }
        }
        if (!best_held) return;
        if (nrun == 0 || (p_sched != S_LIFO && eff_prio(best_held) > best_run)) {
            if (p_sched == S_LIFO && nrun == 0) {
                /* quiescent: give stragglers a moment to arrive so that the order really reverses */
                if (ts_ms(&t_last_event, &tn) * 1000.0 < 300) return;
            }
            resume_thr(best_held);
            if (p_sched == S_LIFO) return;
            continue;
        }
        /* a running thread outranks every held one: wait, but never beyond the cap */
        if (ts_ms(&t_last_event, &tn) * 1000.0 >= p_sched_cap_us) {
            cap_releases++;
            resume_thr(best_held);
            now(&t_last_event);
        }
        return;
    }
}

/* ------------------------------------------------------------------ */
/* stops                                                               */

static int n_held(void)
{
    int n = 0;
    for (int i = 0; i < MAXTHREADS; i++) if (thr[i].state == T_HELD) n++;
    return n;
}

static int futex_untimed(const unsigned long *a)
{
    int op = (int)a[1] & 0x7f; /* strip PRIVATE / CLOCK_REALTIME */
    if (op == FUTEX_WAIT || op == FUTEX_WAIT_BITSET || op == FUTEX_LOCK_PI) return a[3] == 0;
    return 0;
}

static void handle_syscall_stop(struct thr *t)
{
    struct ptrace_syscall_info si;
    long n = ptrace(PTRACE_GET_SYSCALL_INFO, t->tid, sizeof si, &si);
    if (n < 0) { if (errno == ESRCH) return; die("GET_SYSCALL_INFO: %s", strerror(errno)); }
    nstops++;
    now(&t_last_event);
    if (si.op == PTRACE_SYSCALL_INFO_ENTRY) {
        unsigned long a[6];
        for (int i = 0; i < 6; i++) a[i] = si.entry.args[i];
        decode_enter(t, (long)si.entry.nr, a);
        t->insys = 1; t->nsys++;
        const char *act = NULL, *rid = NULL;
        struct user_regs_struct regs;
        if (nrules) {
            if (ptrace(PTRACE_GETREGS, t->tid, 0, &regs) < 0) { if (errno == ESRCH) return; die("GETREGS"); }
            if (apply_rules_enter(t, &regs, &act, &rid)) return;
        }
        t->untimed = 0;
        if (t->p.se && (t->p.se->flags & F_BLOCK)) {
            if (t->p.se->nr == 202) t->untimed = futex_untimed(a);
            else if (t->p.se->nr == 7) t->untimed = ((int)a[2] < 0);
            else if (t->p.se->nr == 232) t->untimed = ((int)a[3] < 0);
            else if (t->p.se->nr == 271) t->untimed = (a[2] == 0);
            else t->untimed = 1;
        }
        log_event(t, 0, 0, act, rid);
        /* close: forget the descriptor at *entry*.  Exit stops of different threads are not reported in kernel
           order, so another thread's openat() returning the same number may be seen before this close's exit. */
        if (t->p.se && t->p.se->nr == 3 && !t->p.fault_errno) fd_set_closed((int)a[0]);
        if (t->p.gate >= 0) {
            struct rule *g = &rules[t->p.gate];
            if (g->until_idx >= 0 && rules[g->until_idx].done < (unsigned long)(g->count ? g->count : 1)) {
                t->gate = t->p.gate; t->state = T_HELD; now(&t->held_at); t->held_seq = seq; holds++;
                return;
            }
        }
        if (should_hold(t)) {
            t->state = T_HELD; now(&t->held_at); t->held_seq = seq; holds++;
            return;
        }
        resume_thr(t);
    } else if (si.op == PTRACE_SYSCALL_INFO_EXIT) {
        long ret = (long)si.exit.rval;
        struct pend *p = &t->p;
        t->insys = 0;
        const char *act = NULL, *rid = NULL;
        if (p->rule >= 0) rid = rules[p->rule].id;
        if (p->rule >= 0 && rules[p->rule].action == A_NOTE && rules[p->rule].when_exit) rules[p->rule].done++;
        if (p->fault_errno || p->force) {
            struct user_regs_struct regs;
            if (ptrace(PTRACE_GETREGS, t->tid, 0, &regs) == 0) {
                ret = p->force ? p->force_ret : -(long)p->fault_errno;
                regs.rax = (unsigned long)ret;
                ptrace(PTRACE_SETREGS, t->tid, 0, &regs);
            }
            act = p->force ? "forced" : "fault";
        } else if (p->shortened) act = "short";
        if (ret == -EMFILE || ret == -ENFILE) n_emfile++;
        /* slow spin: one thread issuing the very same failing call again and again (sleeping in between does not count as progress) */
        if (p->se && p->se->nr != 202 && p->se->nr != 35 && p->se->nr != 230 && p->se->nr != 24) {
            if (ret < 0 && !p->fault_errno && !p->force) {
                unsigned long sg = (unsigned long)p->nr * 1000003UL ^ p->a[0] * 31UL ^ p->a[1] * 131UL ^ p->a[2] * 1031UL ^ (unsigned long)ret;
                if (sg == t->fail_sig) t->fail_repeat++; else { t->fail_sig = sg; t->fail_repeat = 1; }
                if (t->fail_repeat > p_max_repeat && !kill_delivered) {
                    verdict = "livelock_repeat";
                    snprintf(verdict_detail, sizeof verdict_detail, "thread %d (%s) repeated %s = %ld more than %lu times without any successful call in between",
                             t->tid, role_names[t->role], p->se->name, ret, p_max_repeat);
                    if (sumfn_global) write_summary(sumfn_global, 0, 0, 0);
                    kill(root_pid, SIGKILL); kill_delivered = 2;
                }
            } else if (ret >= 0) { t->fail_repeat = 0; t->fail_sig = 0; }
        }
        /* fd bookkeeping */
        int logged = 0;
        if (p->se) {
            int nr = p->se->nr;
            if ((nr == 257 || nr == 2 || nr == 437 || nr == 85) && ret >= 0) {
                n_opens++;
                fd_set_open(t->tid, (int)ret, p->have_path ? p->path : NULL);
                p->fd = (int)ret; /* so that the exit record carries the object identity */
                if ((fd_checks < 20 || (nstops % 4096) < 2)) fd_crosscheck(root_pid);
            } else if ((nr == 32) && ret >= 0) fd_set_open(t->tid, (int)ret, fd_path((int)p->a[0]));
            else if ((nr == 33 || nr == 292) && ret >= 0) fd_set_open(t->tid, (int)ret, fd_path((int)p->a[0]));
            else if (nr == 72 && ret >= 0 && (p->a[1] == F_DUPFD || p->a[1] == F_DUPFD_CLOEXEC)) fd_set_open(t->tid, (int)ret, fd_path((int)p->a[0]));
            else if ((nr == 41 || nr == 290 || nr == 291 || nr == 319) && ret >= 0) fd_set_open(t->tid, (int)ret, "<anon>");
            else if ((nr == 22 || nr == 293) && ret == 0) {
                int fds[2];
                if (read_mem(t->tid, p->a[0], fds, sizeof fds) == 0) { fd_set_open(t->tid, fds[0], "<pipe>"); fd_set_open(t->tid, fds[1], "<pipe>"); }
            }
        }
        if (!logged) log_event(t, 1, ret, act, rid);
        if (p->kill_after) { log_note("kill-after", t->tid, rules[p->rule].id); do_kill(rules[p->rule].id); return; }
        t->state = T_RUN;
        if (ptrace(PTRACE_SYSCALL, t->tid, 0, 0) < 0 && errno != ESRCH) die("PTRACE_SYSCALL");
    } else {
        if (ptrace(PTRACE_SYSCALL, t->tid, 0, 0) < 0 && errno != ESRCH) die("PTRACE_SYSCALL");
    }
}

static unsigned long proc_cpu_ms(pid_t pid)
{
    char pp[64], buf[2048];
    snprintf(pp, sizeof pp, "/proc/%d/stat", pid);
    int fd = open(pp, O_RDONLY);
    if (fd < 0) return 0;
    ssize_t n = read(fd, buf, sizeof buf - 1); close(fd);
    if (n <= 0) return 0;
    buf[n] = 0;
    char *rp = strrchr(buf, ')');
    if (!rp) return 0;
    unsigned long ut = 0, stt = 0;
    /* after ')': state ppid pgrp session tty tpgid flags minflt cminflt majflt cmajflt utime stime */
    if (sscanf(rp + 2, "%*c %*d %*d %*d %*d %*d %*u %*u %*u %*u %*u %lu %lu", &ut, &stt) != 2) return 0;
    long hz = sysconf(_SC_CLK_TCK);
    return (ut + stt) * 1000UL / (unsigned long)hz;
}

/* kernel's view of a thread: 'S' sleeping, 'D' disk sleep, 'R' runnable, 't' tracing stop ... */
static char task_state(pid_t pid, pid_t tid)
{
    char pp[96], buf[512];
    snprintf(pp, sizeof pp, "/proc/%d/task/%d/stat", pid, tid);
    int fd = open(pp, O_RDONLY);
    if (fd < 0) return '?';
    ssize_t n = read(fd, buf, sizeof buf - 1); close(fd);
    if (n <= 0) return '?';
    buf[n] = 0;
    char *rp = strrchr(buf, ')');
    return (rp && rp[1] == ' ') ? rp[2] : '?';
}
static unsigned long deadlock_vetoes = 0;

static void on_tick(int sig) { (void)sig; tick = 1; }

static void write_summary(const char *fn, int exited, int status, int sig)
{
    FILE *f = fopen(fn, "w");
    if (!f) return;
    struct timespec tn; now(&tn);
    fprintf(f, "{\"verdict\":\"%s\",\"detail\":", verdict); json_str(f, verdict_detail);
    fprintf(f, ",\"exited\":%d,\"status\":%d,\"signal\":%d", exited, status, sig);
    fprintf(f, ",\"stops\":%lu,\"events\":%lu,\"fd_peak\":%d,\"fd_checks\":%lu,\"fd_mismatch\":%d", nstops, seq, fd_peak, fd_checks, fd_mismatch);
    fprintf(f, ",\"emfile\":%lu,\"opens\":%lu", n_emfile, n_opens);
    fprintf(f, ",\"killed_by_plan\":%d,\"kill_site\":", kill_delivered); json_str(f, kill_site);
    fprintf(f, ",\"sched_steps\":%lu,\"holds\":%lu,\"cap_releases\":%lu,\"gate_timeouts\":%lu,\"deadlock_vetoes\":%lu", sched_steps, holds, cap_releases, gate_timeouts, deadlock_vetoes);
    fprintf(f, ",\"wall_ms\":%.1f", ts_ms(&t_start, &tn));
    fprintf(f, ",\"rules\":{");
    for (int i = 0; i < nrules; i++)
        fprintf(f, "%s\"%s\":{\"matches\":%lu,\"applied\":%lu,\"done\":%lu}", i ? "," : "", rules[i].id, rules[i].matches, rules[i].applied, rules[i].done);
    fprintf(f, "},\"threads\":[");
    int first = 1;
    for (int i = 0; i < MAXTHREADS; i++) {
        struct thr *t = &thr[i];
        if (t->state == T_FREE) continue;
        fprintf(f, "%s{\"tid\":%d,\"parent\":%d,\"role\":\"%s\",\"state\":%d,\"insys\":%d,\"untimed\":%d,\"nsys\":%lu,\"last\":\"%s\",\"lastpath\":",
                first ? "" : ",", t->tid, t->parent, role_names[t->role], t->state, t->insys, t->untimed, t->nsys,
                t->p.se ? t->p.se->name : "?");
        json_str(f, t->p.have_path ? t->p.path : (fd_path(t->p.fd) ? fd_path(t->p.fd) : ""));
        fputc('}', f);
        first = 0;
    }
    fprintf(f, "]}\n");
    fclose(f);
}

int main(int argc, char **argv)
{
    const char *planfn = NULL, *logfn = NULL, *sumfn = NULL;
    int i = 1;
    for (; i < argc; i++) {
        if (!strcmp(argv[i], "--plan") && i + 1 < argc) planfn = argv[++i];
        else if (!strcmp(argv[i], "--log") && i + 1 < argc) logfn = argv[++i];
        else if (!strcmp(argv[i], "--summary") && i + 1 < argc) sumfn = argv[++i];
        else if (!strcmp(argv[i], "--")) { i++; break; }
        else die("usage: xsup --plan P --log L --summary S -- cmd args...");
    }
    if (i >= argc || !sumfn) die("usage: xsup --plan P --log L --summary S -- cmd args...");
    sumfn_global = sumfn;
    for (size_t k = 0; k < NSYS; k++) sysidx[systab[k].nr] = &systab[k];
    fdt = calloc(MAXFD, sizeof *fdt);
    if (planfn) parse_plan(planfn);
    for (int a = 0; a < nrules; a++) {
        rules[a].until_idx = -1;
        if (rules[a].until[0]) for (int b2 = 0; b2 < nrules; b2++) if (!strcmp(rules[b2].id, rules[a].until)) rules[a].until_idx = b2;
        if (rules[a].action == A_HOLD && rules[a].until_idx < 0) die("hold rule %s: unknown until=%s", rules[a].id, rules[a].until);
    }
    rng_state = p_sched_seed * 0x9E3779B97F4A7C15ULL + 12345;
    if (p_sched == S_PCT) {
        pct_nchange = p_sched_d > 16 ? 16 : p_sched_d;
        for (int k = 0; k < pct_nchange; k++) pct_change[k] = 1 + rng_next() % p_pct_horizon;
    }
    if (logfn) { logf = fopen(logfn, "w"); if (!logf) die("cannot open log"); setvbuf(logf, NULL, _IOFBF, 1 << 16); }
    /* inherited descriptors */
    for (int fd = 0; fd < 3; fd++) { fdt[fd].open = 1; fd_open_count++; }
    fd_peak = fd_open_count;

    pid_t pid = fork();
    if (pid < 0) die("fork");
    if (pid == 0) {
        if (p_cwd[0] && chdir(p_cwd)) _exit(126);
        if (p_umask >= 0) umask(p_umask);
        if (p_nofile > 0) { struct rlimit rl = {p_nofile, p_nofile}; setrlimit(RLIMIT_NOFILE, &rl); }
        int fd;
        fd = open(p_stdin[0] ? p_stdin : "/dev/null", O_RDONLY); if (fd >= 0) { dup2(fd, 0); if (fd > 2) close(fd); }
        if (p_stdout[0]) { fd = open(p_stdout, O_WRONLY | O_CREAT | O_TRUNC, 0644); if (fd >= 0) { dup2(fd, 1); if (fd > 2) close(fd); } }
        if (p_stderr[0]) { fd = open(p_stderr, O_WRONLY | O_CREAT | O_TRUNC, 0644); if (fd >= 0) { dup2(fd, 2); if (fd > 2) close(fd); } }
        for (fd = 3; fd < 256; fd++) close(fd);
        for (int k = 0; k < nenvs; k++) putenv(envs[k]);
        ptrace(PTRACE_TRACEME, 0, 0, 0);
        raise(SIGSTOP);
        execvp(argv[i], &argv[i]);
        _exit(127);
    }
    root_pid = pid;
    now(&t_start); t_last_event = t_start;
    int st;
    if (waitpid(pid, &st, __WALL) < 0 || !WIFSTOPPED(st)) die("child did not stop");
    long opts = PTRACE_O_TRACESYSGOOD | PTRACE_O_TRACECLONE | PTRACE_O_TRACEFORK | PTRACE_O_TRACEVFORK | PTRACE_O_TRACEEXEC | PTRACE_O_EXITKILL;
    if (ptrace(PTRACE_SETOPTIONS, pid, 0, opts) < 0) die("SETOPTIONS: %s", strerror(errno));
    struct thr *t0 = add_thr(pid);
    t0->role = R_MAIN; t0->seen = 1;
    if (p_roles_probe) t0->role = R_MAIN;
    if (ptrace(PTRACE_SYSCALL, pid, 0, 0) < 0) die("initial resume");

    struct sigaction sa; memset(&sa, 0, sizeof sa); sa.sa_handler = on_tick; sigaction(SIGALRM, &sa, NULL);
    struct itimerval itv = {{0, 250000}, {0, 250000}}; setitimer(ITIMER_REAL, &itv, NULL);

    int root_exited = 0, root_status = 0, root_sig = 0;
    unsigned long cpu_at_quiet = 0; struct timespec quiet_since; int quiet = 0;
    /* pending "new child seen before parent's clone event" */
    for (;;) {
        int nh = n_held();
        pid_t w = waitpid(-1, &st, __WALL | (nh ? WNOHANG : 0));
        if (w == 0) {
            decide_release();
            struct timespec ts = {0, 40000}; nanosleep(&ts, NULL);
        } else if (w < 0) {
            if (errno == ECHILD) break;
            if (errno != EINTR) die("waitpid: %s", strerror(errno));
        } else {
            struct thr *t = find_thr(w);
            if (WIFEXITED(st) || WIFSIGNALED(st)) {
                if (t) { if (t->state != T_DEAD) nthr_live--; t->state = T_DEAD; }
                if (w == root_pid) {
                    root_exited = 1;
                    if (WIFEXITED(st)) root_status = WEXITSTATUS(st); else root_sig = WTERMSIG(st);
                }
            } else if (WIFSTOPPED(st)) {
                int sig = WSTOPSIG(st);
                int event = (unsigned)st >> 16;
                if (!t) { t = add_thr(w); }
                if (sig == (SIGTRAP | 0x80)) {
                    t->seen = 1;
                    handle_syscall_stop(t);
                } else if (sig == SIGTRAP && event) {
                    if (event == PTRACE_EVENT_CLONE || event == PTRACE_EVENT_FORK || event == PTRACE_EVENT_VFORK) {
                        unsigned long newtid = 0;
                        ptrace(PTRACE_GETEVENTMSG, w, 0, &newtid);
                        struct thr *c = find_thr((pid_t)newtid);
                        if (!c) c = add_thr((pid_t)newtid);
                        assign_role(c, t);
                        char d[64]; snprintf(d, sizeof d, "%lu role=%s", newtid, role_names[c->role]);
                        log_note("clone", w, d);
                    }
                    ptrace(PTRACE_SYSCALL, w, 0, 0);
                } else if (sig == SIGSTOP && !t->seen) {
                    /* initial stop of an auto-attached thread */
                    t->seen = 1;
                    ptrace(PTRACE_SYSCALL, w, 0, 0);
                } else if (event == PTRACE_EVENT_STOP) {
                    ptrace(PTRACE_SYSCALL, w, 0, 0);
                } else {
                    /* deliver the signal */
                    ptrace(PTRACE_SYSCALL, w, 0, sig == SIGTRAP ? 0 : sig);
                }
            }
            decide_release();
        }
        if (tick) {
            tick = 0;
            struct timespec tn; now(&tn);
            if (kill_delivered) continue;
            if (ts_ms(&t_start, &tn) > p_wall_ms) {
                verdict = "watchdog"; snprintf(verdict_detail, sizeof verdict_detail, "wall clock %ld ms exceeded", p_wall_ms);
                kill(root_pid, SIGKILL); kill_delivered = 2; continue;
            }
            unsigned long cpu = proc_cpu_ms(root_pid);
            if (cpu > (unsigned long)p_cpu_ms) {
                verdict = "livelock_cpu"; snprintf(verdict_detail, sizeof verdict_detail, "tracee cpu %lu ms > budget %ld", cpu, p_cpu_ms);
                kill(root_pid, SIGKILL); kill_delivered = 2; continue;
            }
            if (nstops > p_max_steps) {
                verdict = "livelock_steps"; snprintf(verdict_detail, sizeof verdict_detail, "%lu stops > budget %lu", nstops, p_max_steps);
                kill(root_pid, SIGKILL); kill_delivered = 2; continue;
            }
            /* logical deadlock */
            int live = 0, allblocked = 1;
            for (int k = 0; k < MAXTHREADS; k++) {
                struct thr *t = &thr[k];
                if (t->state == T_FREE || t->state == T_DEAD) continue;
                live++;
                if (!(t->state == T_BLOCKED && t->insys && t->untimed)) allblocked = 0;
            }
            if (live && allblocked && !root_exited) {
                if (!quiet) { quiet = 1; quiet_since = tn; cpu_at_quiet = cpu; }
                else if (cpu != cpu_at_quiet || ts_ms(&quiet_since, &t_last_event) > 0) { quiet_since = tn; cpu_at_quiet = cpu; }
                else if (ts_ms(&quiet_since, &tn) > p_deadlock_ms) {
                    /* only a process whose threads the kernel, too, reports as sleeping is deadlocked: a runnable thread is
                       merely starved of CPU, a thread in a tracing stop has an event we have not consumed yet */
                    int veto = 0;
                    for (int k = 0; k < MAXTHREADS; k++) {
                        struct thr *t = &thr[k];
                        if (t->state == T_FREE || t->state == T_DEAD) continue;
                        char c = task_state(root_pid, t->tid);
                        if (c != 'S' && c != 'D') veto = 1;
                    }
                    if (veto) { deadlock_vetoes++; quiet_since = tn; continue; }
                    verdict = "deadlock";
                    snprintf(verdict_detail, sizeof verdict_detail, "all %d live threads in untimed blocking calls, no event and no cpu for %ld ms", live, p_deadlock_ms);
                    /* snapshot thread states before killing */
                    if (sumfn) write_summary(sumfn, 0, 0, 0);
                    kill(root_pid, SIGKILL); kill_delivered = 2; continue;
                }
            } else quiet = 0;
        }
    }
    if (!strcmp(verdict, "running")) verdict = kill_delivered == 1 ? "killed" : "exited";
    if (logf) fclose(logf);
    if (strcmp(verdict, "deadlock") && strcmp(verdict, "livelock_repeat")) write_summary(sumfn, root_exited && !root_sig, root_status, root_sig);
    return 0;
}
