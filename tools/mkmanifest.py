#!/usr/bin/env python3
"""Regenerates /verif/MANIFEST.json from the table below (keeps it schema-valid at all times)."""
import json, os
V = os.path.dirname(os.path.dirname(os.path.abspath(__file__)))

CHECKS = {
 "C13": ("exploration", "5/C13",
         "Seeded trees with links to files, to directories (inside/outside the source), chains up to 38, absolute/relative, dangling and cyclic; copied with -L by both drivers; oracle: the destination equals the tree obtained by resolving every source path with stat() and contains no symbolic link; dangling/cyclic links imply non-zero exit.",
         "Links to ancestor directories (infinite expansion) are not generated.", "runtime monitoring: snapshot oracle against a stat()-resolved model"),
 "C14": ("exploration", "5/C14",
         "Seeded FIFOs, sockets, character devices (device numbers incl. 20-bit minors) and block devices (negative) x modes x umasks x placements x prior entries x drivers x filesystems, every run traced; oracle: lstat of destination nodes (S_IFMT, st_rdev, mode == source & ~umask), replacement of existing entries, block devices imply non-zero exit; trace monitor: no open() of a special source.",
         "Needs root with CAP_MKNOD (present).", "runtime monitoring: lstat oracle + system-call trace monitor"),
 "C15": ("fault_enumeration", "5/C15",
         "Every answer class to the FICLONE ioctl (real kernel, each unsupported errno, hard EIO, supervisor-emulated success for all or some files) x {never, always, auto} x drivers; per-destination-inode monitor over the system-call trace checks who cloned, who copied data and in which order, against the exit status and the bytes.",
         "No reflink filesystem exists here: the success path is an emulation (ioctl suppressed, supervisor copies through /proc/<tid>/fd, returns 0).",
         "runtime monitoring: ioctl answer enumeration + per-inode trace monitor"),
 "C16": ("exploration", "5/C16",
         "Seeded invocations of every rejection class x offending-argument position x destination state x drivers; oracle: non-zero exit, byte-for-byte identical whole-sandbox snapshot (incl. directory mtimes), and no successful mutating system call on a sandbox object in the trace.",
         "A --glob pattern that matches nothing is not claimed as a rejection class.", "runtime monitoring: before/after snapshot equality + trace monitor"),
 "C17": ("exploration", "5/C17",
         "Seeded trees x .gitignore files from the property's pattern grammar; the oracle is git itself (check-ignore --no-index with a detached empty git-dir and no user/system config): the set of destination paths must equal the set git does not ignore; without the option nothing may be filtered.",
         "git 2.39 is the reference implementation of the pattern semantics; only grammar forms named in the property are generated.",
         "runtime monitoring: differential oracle against git check-ignore"),
 "C18": ("exploration", "5/C18",
         "Multi-block trees copied with --fsync under supervisor schedules (lifo, pct, role priorities, jitter), also with emulated clones and short copies; offline monitor per destination inode: a successful fsync must be entered after every data-modifying call on that inode has returned, for every regular file copied.",
         "Interleavings are sampled; ordering is judged on the supervisor's total order of enter/exit stops.",
         "runtime monitoring: offline ordering checker over the system-call trace"),
 "C19": ("exploration", "5/C19",
         "probe_fs maps seeded files through the public libfs API on ext4 and tmpfs; the harness reads the files back and requires every byte outside the reported ranges (extents, merged extents, successive segments) to be zero and ranges ordered/disjoint. merge_extents is additionally checked exhaustively over all sorted extent lists in a bounded offset universe (U=14 quick, 18 thorough) and on random u64 lists. Auxiliary: valgrind memcheck on the >32-extent FIEMAP path, Miri on the merge unit test (thorough).",
         "Exhaustive only for the merge sub-space within U; file layouts are sampled. memcheck/Miri only vouch for the executions they ran.",
         "runtime monitoring: API probe + read-back oracle; exhaustive enumeration for merge_extents; memcheck/Miri auxiliary"),
 "C20": ("exploration", "5/C20",
         "Trees of 1000..16000 files under RLIMIT_NOFILE=1024 with the supervisor keeping walker/dispatcher ahead of the workers; the supervisor's shadow descriptor table (cross-checked with /proc/<pid>/fd) gives the peak of simultaneously open descriptors; oracle: exit 0, no EMFILE/ENFILE, peak independent of the number of files at fixed driver/workers/schedule.",
         "No particular constant is demanded; slack 16 descriptors.", "runtime monitoring: descriptor-table monitor under a resource limit and adversarial scheduling"),
 "C10": ("exploration", "5/C10",
         "Seeded executions over modes (all special-bit combinations x sampled rwx), nanosecond mtimes, user xattrs, uid/gid pairs (root: fchown really works), flag combinations, umasks, fresh/overwritten destinations, both drivers and filesystems; multi-block files under lifo/pct/role schedules. Oracle: lstat+xattr comparison of every destination file with its source as the flags demand, plus the metadata-after-last-byte trace monitor.",
         "Directory/symlink metadata and atime are outside the statement. With --no-perms and --ownership the kernel's clearing of set-ID bits of a previous mode is accepted.",
         "runtime monitoring: metadata snapshot oracle + trace monitor under schedule perturbation"),
 "C11": ("exploration", "5/C11",
         "Seeded sparse layouts (0-100 segments, holes >= 1 MiB, aligned/unaligned, synced/unsynced) x block sizes x workers x drivers x fresh/fully-allocated destination on ext4 (FIEMAP) and tmpfs (SEEK_DATA only); each layout also with holes x8. Oracle: destination st_blocks (after fsync) within a per-segment allowance of the source's data, no destination data wholly inside a source hole, allocation independent of hole size, bytes identical.",
         "Only ext4 and tmpfs exist here; holes < 1 MiB are not demanded.",
         "runtime monitoring: allocation / SEEK_DATA-map oracle over seeded executions"),
 "C12": ("exploration", "5/C12",
         "A library client (probe_xcp) runs under the supervisor with three updaters; every update is tied to a marker system call so it has a position in the supervisor's total order of system calls. Oracle: sum(Size)==total bytes, every prefix has Copied<=Size, at every marker reported<=bytes returned by completed data calls on destination files, receiver disconnected after copy(), incomplete destination implies Error update or Err (for NoopUpdater: Err).",
         "Interleavings and I/O policies are sampled. The recording updater's order is the order of its own mutex.",
         "runtime monitoring: API event-stream checker merged with the system-call trace"),
 "C08": ("exploration", "5/C08",
         "Seeded executions with -n into a directory pre-populated with entries of every kind at the mapped paths of a random subset of 3-12 sources, under supervisor schedules that race the walker's existence check with active workers; oracle: every pre-existing entry keeps kind, inode, bytes, mode, mtime, ctime, link text, device number; a colliding file/link/node source implies non-zero exit; trace monitor: no mutating call on a pre-existing inode or path; nothing is created through a pre-existing link.",
         "Directory-onto-directory collisions are not demanded either way; directory mtimes may change when new children are created.",
         "runtime monitoring: before/after snapshot of pre-existing entries + trace monitor under schedule perturbation"),
 "C09": ("fault_enumeration", "5/C09",
         "Multi-step histories replayed against the real binary with a byte-level model of <name>.~N~ bookkeeping (every old version must survive under a new, larger number; auto exactly when such a backup exists; no sibling entry changes), over name classes incl. non-UTF-8 and look-alikes and pre-seeded backup sets; plus SIGKILL before/after every mutating system call of the overwrite step (old content must remain under the original or a backup name).",
         "Copying a name and its own backup look-alike in one invocation is not generated (the statement cannot arbitrate it). Kill points are system-call boundaries.",
         "runtime monitoring: history replay with reference model + kill-point enumeration"),
 "C05": ("fault_enumeration", "5/C05",
         "Real executions under the ptrace supervisor with one I/O policy each: lengths of copy_file_range/read/write/pread64/pwrite64 reduced at entry so the kernel performs genuinely short transfers (1 byte, len-1, half, random, caps; every call or only the k-th), copy_file_range refused (ENOSYS/EXDEV/EPERM, from call 1 or k), FICLONE and FIEMAP answered unsupported, read EINTR; plus the portable libfs back end through a libfs-only probe. Oracle: exit 0 implies byte-exact destination.",
         "Short returns are sampled (extremes and random interior points), not enumerated at every call; the portable back end is reachable only at the libfs API (cargo feature unification).",
         "runtime monitoring: system-call length clamping / refusal + byte-equality oracle"),
 "C06": ("exploration", "5/C06",
         "The same invocation is executed under both drivers, workers 1..64 and supervisor schedules (pct, role priorities, lifo, jitter) that hold threads at system-call boundaries; oracle: equal exit class within a case and identical destination snapshots among exit-0 runs, plus two trace monitors (no creation under the destination fails with ENOENT; no metadata call on a destination inode begins before every data write on it returned). Evidence counts distinct interleaving signatures.",
         "Interleavings are sampled, not enumerated; scheduling points are system-call entries only.",
         "runtime monitoring: schedule perturbation + differential snapshot oracle + offline trace monitors"),
 "C07": ("fault_enumeration", "5/C07",
         "Liveness restated as bounded progress: every supervised execution (termination-specific inputs, single faults at every site of baseline traces, library API runs with three updaters) must reach exit without the supervisor's logical deadlock detector (all live threads in untimed blocking calls, no event/CPU for 3 s) or step/CPU livelock budgets firing; for the API the update channel must be disconnected after copy() returned. Wall-clock watchdog is inconclusive.",
         "No finite run decides 'always terminates'; only absence of deadlock/livelock states on the executions produced is claimed.",
         "runtime monitoring: termination watch (deadlock/livelock detectors) under fault injection and schedule perturbation"),
 "C02": ("exploration", "5/C02",
         "Whole-sandbox snapshot before/after each real execution compared with an independent model of cp's mapping rule: every mapped entry present with the same kind, link text and bytes; every unmapped non-source entry byte-for-byte unchanged; nothing new outside mapped paths. Held = no exit-0 run observed deviated.",
         "Model covers the shapes listed in the evidence rule; inputs the statement leaves undefined (same-basename sources, '.'/'..' sources, kind-changing overwrites) are not generated.",
         "runtime monitoring: snapshot diff against a reference model"),
 "C03": ("fault_enumeration", "5/C03",
         "Enumerated alias relations x drivers x block sizes x supervisor schedules, plus SIGKILL before/after every mutating system call and one injected errno at every sandbox-touching call of recorded baseline traces; oracle compares content hash, lstat, xattrs and link text of every source and bystander entry before and after, whatever the exit status.",
         "Kill points are system-call boundaries (xcp changes nothing on disk in between); quick samples the enumerated (site x action) list, thorough runs all of it.",
         "runtime monitoring: ptrace fault/kill injection + before/after snapshot oracle"),
 "C04": ("fault_enumeration", "5/C04",
         "Every sandbox-touching system-call site of a recorded baseline trace (walker, dispatcher, workers) x every applicable errno is failed once by the ptrace supervisor; exit 0 is accepted only if the full snapshot comparison (kinds, bytes, link text, modes, mtimes, backup content) passes and no requested fsync was failed. Thorough adds pairs of faults and pct schedules.",
         "Sites come from baseline traces of the listed trees; a site that does not recur in its faulted run is counted as missed. xattr/ownership/close failures are tolerated by the statement and not injected.",
         "runtime monitoring: system-call fault enumeration with snapshot oracle"),
 "C01": ("exploration", "5/C01",
         "Snapshot oracle (sha256+length of every destination file vs the source bytes recorded before the run) over seeded real executions of the xcp binary: size x layout x prior destination x driver x workers x block size x reflink x filesystem x schedule. Thorough adds a file larger than one kernel copy request. Held means: no exit-0 run among those observed had a differing file.",
         "Trusts sha256, the kernel's read path and the ptrace supervisor for the scheduled subset. Sampled, not exhaustive: sizes are boundary-biased around the block size, layouts random.",
         "runtime monitoring: post-run snapshot oracle over seeded executions"),
}

def main():
    checks = []
    for pid, (cat, ref, text, note, tech) in sorted(CHECKS.items()):
        checks.append({
            "property_id": pid,
            "quick_cmd": "./check %s --tier quick" % pid,
            "thorough_cmd": "./check %s --tier thorough" % pid,
            "evidence_file": "evidence/%s.json" % pid,
            "replay_cmd_template": "./check %s --replay {path}" % pid,
            "engine": "xsup+harness",
            "level_claimed": {"category": cat, "text": text, "design_ref": "DESIGN.md section " + ref},
            "level_note": note,
            "technique": tech,
        })
    props = [json.loads(l)["id"] for l in open(os.path.join(V, "properties.jsonl"))]
    na = [{"property_id": p, "reason": "check not built yet in this revision (planned: see DESIGN.md section 5)"}
          for p in props if p not in CHECKS]
    m = {
        "version": 1,
        "setup_cmd": "./setup.sh",
        "hooks": {"guard": "tarka_xcp_verif", "enable": "none needed: every property is observed at the process / public-API boundary; the cfg name is reserved (RUSTFLAGS='--cfg tarka_xcp_verif')",
                  "baseline_off_cmd": "/verif/tools/baseline.sh", "source_commits": [], "add_only": True},
        "engines": [
            {"name": "xsup", "path": "xsup/xsup.c", "serves_properties": sorted(CHECKS), "kind_free_text": "ptrace supervisor: syscall event log, fault/short/kill/clone-emulation rules, thread scheduler, termination watch"},
            {"name": "harness", "path": "harness/", "serves_properties": sorted(CHECKS), "kind_free_text": "python: seeded generators, reference model, snapshot oracles, trace monitors, evidence"},
            {"name": "probes", "path": "probes/", "serves_properties": [p for p in ("C05", "C07", "C12", "C19") if p in CHECKS], "kind_free_text": "rust API probes linked against /repo's libxcp and libfs"},
        ],
        "checks": checks,
        "not_applicable": na,
        "notes": "All checks rebuild /repo's working tree into /var/tmp/xcp-verif/target. VERIF_SEED selects the random choices. Exit 2 = machinery failure (no verdict).",
    }
    with open(os.path.join(V, "MANIFEST.json"), "w") as f:
        json.dump(m, f, indent=1)

if __name__ == "__main__":
    main()
