#!/bin/bash
# withpatch.sh <seeded-name|patch-file> <check> [seed]  -- apply a change to /repo, run one quick check, always restore /repo.
p=$1; [ -f "$p" ] || p=/verif/seeded/$1/patch.diff
[ -z "$(git -C /repo status --porcelain --untracked-files=no)" ] || { echo "/repo not clean"; exit 2; }
git -C /repo apply "$(realpath $p)" || exit 2
trap 'git -C /repo checkout -- .' EXIT
cd /verif && VERIF_SEED=${3:-1} ./check $2 --tier ${TIER:-quick} 2>&1 | grep -E "^$2|VIOL|sig:|what:|INCONC" | cut -c1-${COLS:-260} | head -${LINES_:-14}
