import sys,re
side=sys.argv[1]
for p in sys.argv[2:]:
    s=open(p).read()
    out=[];mode=None
    for line in s.split("\n"):
        if line.startswith("<<<<<<< "): mode="ours"; continue
        if line.startswith("=======") and mode=="ours": mode="theirs"; continue
        if line.startswith(">>>>>>> ") and mode=="theirs": mode=None; continue
        if mode is None or mode==side: out.append(line)
    open(p,"w").write("\n".join(out))
