p='/repo/libxcp/src/operations.rs'
s=open(p).read()
L=s.split("\n")
start=[i for i,l in enumerate(L) if l=="    for source in sources {"][-1]
end=next(i for i,l in enumerate(L) if 'debug!("Walk-worker finished' in l)-1
assert L[end]=="    }", L[end]
body=L[start+1:end]
ded=[l[4:] if l.startswith("    ") else l for l in body]
new_loop=["    // Carry on with the remaining sources after one of them fails (as",
"    // cp does); the outcome is reported once every source was tried.",
"    let mut result = Ok(());",
"    for source in sources {",
"        result = walk_source(source, dest, config, &work_tx, &stats, &mut produced, &mut written, &mut replaced, &mut backup_named, &mut through_links, &mut spelled, &mut read, &all_sources, &mut all_known);",
"        if let Err(e) = &result {",
"            error!(\"{}\", e);",
"        }",
"    }"]
func=["",
"fn walk_source(",
"    source: PathBuf,",
"    dest: &Path,",
"    config: &Config,",
"    work_tx: &cbc::Sender<Operation>,",
"    stats: &Arc<dyn StatusUpdater>,",
"    produced: &mut HashMap<PathBuf, PathBuf>,",
"    written: &mut HashMap<(u64, u64), PathBuf>,",
"    replaced: &mut HashSet<PathBuf>,",
"    backup_named: &mut HashSet<PathBuf>,",
"    through_links: &mut HashSet<PathBuf>,",
"    spelled: &mut HashSet<PathBuf>,",
"    read: &mut HashMap<(u64, u64), PathBuf>,",
"    all_sources: &[PathBuf],",
"    all_known: &mut bool,",
") -> Result<()> {"]+ded+["    Ok(())","}"]
rest=L[end+1:]
ri=next(i for i,l in enumerate(rest) if l=="    Ok(())")
rest[ri]="    result"
fe=next(i for i,l in enumerate(rest) if i>ri and l=="}")
out=L[:start]+new_loop+rest[:fe+1]+func+rest[fe+1:]
open(p,"w").write("\n".join(out))
# (inside walk_source the walker's state arrives by reference)
s=open(p).read()
s=s.replace("if aliased && !all_known {","if aliased && !*all_known {")
s=s.replace("known_sources(&all_sources, config, &mut read);\n                                all_known = true;","known_sources(all_sources, config, read);\n                                *all_known = true;")
open(p,"w").write(s)
