#!/bin/bash
# prepare_round.sh Cxx...  -- scratch worktrees + property text + list of already seeded changes for a round of sub-agent mutants
mkdir -p /tmp/wt; cp /verif/tools/agent/INSTRUCTIONS.md /verif/tools/agent/ROUND*.md /tmp/wt/
for c in "$@"; do git -C /repo worktree add --detach /tmp/wt/$c HEAD -q; done
python3 - "$@" <<'P'
import json, glob, sys
props={json.loads(l)['id']:json.loads(l) for l in open('/verif/properties.jsonl')}
for c in sys.argv[1:]:
    p=props[c]
    open('/tmp/wt/%s.prop.txt'%c,'w').write("%s — %s\n\nStatement: %s\n\nQuantified over: %s\n\nAnchors in the code (what is meant to make it hold): %s\n" % (p['id'],p['title'],p['statement'],p['quantifier']['text'], json.dumps(p['anchors']['mechanism'],indent=1)))
    lines=[]
    for d in sorted(glob.glob('/verif/seeded/S*-%s/'%c)):
        m=json.load(open(d+'meta.json'))
        lines.append("- %s\n  (needs: %s)" % (m['summary'], m['needs']))
    open('/tmp/wt/%s.taken.txt'%c,'w').write("Already seeded by previous contributors for this property (do NOT repeat any of them or a close variant; pick a different mechanism, a different code location and a different trigger):\n"+"\n".join(lines)+"\n")
P
echo prepared: "$@"
