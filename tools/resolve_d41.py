#!/usr/bin/env python3
"""One-off helper (kept for the record): resolve the conflicts that fix 9288c9d (D41) caused in seeded patches touching operations.rs.
Import-only blocks: the patch's side, with HashSet added to its `std::collections` import.  Declaration blocks: both sides."""
import re, sys
p = sys.argv[1]
s = open(p).read()
def res(m):
    ours, theirs = m.group(1), m.group(2)
    lines = [l for l in (ours + theirs).split("\n") if l.strip()]
    if all(l.startswith("use ") for l in lines):
        t = theirs
        if "HashSet" not in t:
            t = t.replace("use std::collections::HashMap;", "use std::collections::{HashMap, HashSet};")
        if "HashSet" not in t:
            t = "use std::collections::HashSet;\n" + t
        return t
    if all(l.lstrip().startswith(("//", "let mut")) for l in lines):
        return ours + theirs
    return m.group(0)
s = re.sub(r"<<<<<<< ours\n(.*?)=======\n(.*?)>>>>>>> theirs\n", res, s, flags=re.S)
open(p, "w").write(s)
print("left:", s.count("<<<<<<< ours"))
