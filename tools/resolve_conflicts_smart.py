import sys
for p in sys.argv[1:]:
    out=[];mode=None;ours=[];theirs=[]
    for line in open(p).read().split("\n"):
        if line.startswith("<<<<<<< "): mode="o"; ours=[];theirs=[]; continue
        if line.startswith("=======") and mode=="o": mode="t"; continue
        if line.startswith(">>>>>>> ") and mode=="t":
            mode=None
            if all(l.startswith("use ") or not l.strip() for l in ours+theirs):
                res=list(theirs)
                for l in ours:
                    if "collections" in l and l not in res: res.insert(0 if not res or not res[0].startswith("use std::{") else 1, l)
                out+=res
            else:
                seen=set()
                for l in ours+theirs:
                    if l not in seen or not l.strip(): out.append(l)
                    seen.add(l)
            continue
        if mode=="o": ours.append(line)
        elif mode=="t": theirs.append(line)
        else: out.append(line)
    open(p,"w").write("\n".join(out))
