#!/usr/bin/env python3
"""Resolve merge conflicts that only concern `use` lines: keep the patch's side and add those of our imports whose names it lacks.
Other conflict blocks: keep both sides (ours first), dropping exact duplicates.  Build afterwards to see whether that made sense."""
import re, sys
def names(line):
    m = re.search(r"\{(.*)\}", line)
    if m:
        return {x.strip().split(" as ")[-1] for x in m.group(1).split(",") if x.strip() and x.strip() != "self"}
    return {line.rstrip(";").split("::")[-1].strip()}
for p in sys.argv[1:]:
    out=[];mode=None;ours=[];theirs=[]
    for line in open(p).read().split("\n"):
        if line.startswith("<<<<<<< "): mode="o"; ours=[];theirs=[]; continue
        if line.startswith("=======") and mode=="o": mode="t"; continue
        if line.startswith(">>>>>>> ") and mode=="t":
            mode=None
            if all(l.startswith("use ") or not l.strip() for l in ours+theirs):
                res=list(theirs)
                have=set().union(*[names(l) for l in theirs if l.strip()]) if any(l.strip() for l in theirs) else set()
                for l in ours:
                    if l.strip() and l not in res and not (names(l) <= have):
                        res.append(l)
                out+=res
            else:
                seen=set()
                for l in ours+theirs:
                    if l not in seen or not l.strip(): out.append(l)
                    seen.add(l)
            continue
        if mode=="o": ours.append(line)
        elif mode=="t": theirs.append(line)
        else: out.append(line)
    open(p,"w").write("\n".join(out))
