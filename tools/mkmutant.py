#!/usr/bin/env python3
"""mkmutant.py <name> <checks,comma> <file> <<< 'OLD\n=====\nNEW'   -- create /verif/mutants/<name>.patch from a string replacement in /repo (then restores /repo)."""
import subprocess, sys
name, checks, path = sys.argv[1:4]
old, new = sys.stdin.read().split("\n=====\n")
new = new.rstrip("\n") if not old.endswith("\n") else new
p = "/repo/" + path
s = open(p).read()
if old not in s:
    sys.exit("OLD text not found in " + path)
open(p, "w").write(s.replace(old, new, 1))
d = subprocess.check_output(["git", "-C", "/repo", "diff"]).decode()
subprocess.check_call(["git", "-C", "/repo", "checkout", "--", "."])
open("/verif/mutants/%s.patch" % name, "w").write("# expect: %s\n" % checks + d)
print("wrote", name, len(d.splitlines()), "lines")
