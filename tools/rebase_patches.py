#!/usr/bin/env python3
"""After a `fix:` commit in /repo: bring seeded/*/patch.diff and mutants/*.patch back onto HEAD.
Clean three-way merges are stored (the previous version is kept as patch.prev-<n>.diff); conflicts are listed for manual work."""
import glob, os, subprocess, sys
def sh(c): return subprocess.run(c, shell=True, capture_output=True, text=True)
assert not sh("git -C /repo status --porcelain --untracked-files=no").stdout.strip(), "/repo not clean"
todo = sorted(glob.glob("/verif/seeded/*/patch.diff")) + sorted(glob.glob("/verif/mutants/*.patch"))
for p in todo:
    if sh("git -C /repo apply --check %s" % p).returncode == 0:
        continue
    name = p.split("/")[-2] if p.endswith("patch.diff") else os.path.basename(p)
    hdr = ""
    if p.endswith(".patch"):
        hdr = open(p).readline() if open(p).readline().startswith("# expect") else ""
    sh("git -C /repo apply --3way %s" % p)
    conflicts = sh("git -C /repo diff --name-only --diff-filter=U").stdout.split()
    changed = sh("git -C /repo status --porcelain --untracked-files=no").stdout.strip()
    if conflicts or not changed:
        print("CONFLICT %-12s %s" % (name, " ".join(conflicts) or "(does not apply at all)"))
    else:
        sh("git -C /repo reset -q")
        diff = sh("git -C /repo diff").stdout
        chk = sh("cd /repo && CARGO_NET_OFFLINE=true cargo check --offline 2>&1 | grep -E '^error' | head -3").stdout
        if chk.strip():
            print("BUILD-FAILS %-12s %s" % (name, chk.strip()[:120]))
        else:
            n = len(glob.glob(os.path.dirname(p) + "/patch.prev-*.diff")) if p.endswith("patch.diff") else 0
            if p.endswith("patch.diff"):
                os.rename(p, os.path.dirname(p) + "/patch.prev-%d.diff" % n)
            open(p, "w").write(hdr + diff)
            print("rebased     %s" % name)
    sh("git -C /repo checkout HEAD -- . ; git -C /repo reset -q; git -C /repo checkout -- .")
