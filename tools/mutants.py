#!/usr/bin/env python3
"""Self-validation: apply each seeded change to /repo, run the checks expected to catch it, restore /repo.

  tools/mutants.py [--baseline] [--all-checks] [--seed N] [--tier quick] [--isolated] [name-substring ...]

--isolated works on a scratch worktree of /repo's HEAD (under /var/tmp, removed afterwards) with a scratch space of its own
(XCP_REPO / VERIF_SCRATCH_TAG), so /repo itself is never touched and other checks can run at the same time.

Patches: /verif/mutants/*.patch (first line '# expect: C01,C05') and /verif/seeded/<id>/patch.diff (meta.json 'property').
Results are appended to /verif/mutants/RESULTS.json (one record per (patch, check, seed)).
"""
import glob, json, os, subprocess, sys, time

V = os.path.dirname(os.path.dirname(os.path.abspath(__file__)))      # the tree this script lives in (a `vp run` snapshot stays self-consistent)
ALL = ["C%02d" % i for i in range(1, 21)]
REPO = "/repo"
ENV = ""


def sh(cmd, **kw):
    return subprocess.run(cmd, shell=True, capture_output=True, text=True, **kw)


def patches():
    out = []
    for p in sorted(glob.glob(V + "/mutants/*.patch")):
        first = open(p).readline()
        if first.startswith("# retired:") and not any(a in p for a in sys.argv[1:] if not a.startswith("--")):
            continue
        exp = first.split(":", 1)[1].strip().split(",") if first.startswith("# expect:") else []
        out.append((os.path.basename(p)[:-6], p, exp))
    for d in sorted(glob.glob(V + "/seeded/*/")):
        m = json.load(open(d + "meta.json")) if os.path.exists(d + "meta.json") else {}
        if m.get("retired") and not any(a in d for a in sys.argv[1:] if not a.startswith("--")):
            continue        # no longer distinguishable from the current tree (see meta.json); run it by naming it
        if os.path.exists(d + "patch.diff"):
            exp = m.get("caught_by") or [m.get("property")] if m.get("property") else []
            out.append(("seeded-" + os.path.basename(d.rstrip("/")), d + "patch.diff", [e for e in exp if e]))
    return out


def main():
    args = sys.argv[1:]
    baseline = "--baseline" in args
    allchecks = "--all-checks" in args
    seed = int(args[args.index("--seed") + 1]) if "--seed" in args else 1
    tier = args[args.index("--tier") + 1] if "--tier" in args else "quick"
    names = [a for i, a in enumerate(args) if not a.startswith("--") and (i == 0 or args[i - 1] not in ("--seed", "--tier"))]
    global REPO, ENV
    if "--isolated" in args:
        REPO = "/var/tmp/xcp-verif-mut%d/repo" % os.getpid()
        os.makedirs(os.path.dirname(REPO), exist_ok=True)
        if sh("git -C /repo worktree add --detach %s HEAD -q" % REPO).returncode:
            sys.exit("cannot create scratch worktree")
        ENV = "XCP_REPO=%s VERIF_SCRATCH_TAG=-mut%d VERIF_OUT_DIR=%s/out " % (REPO, os.getpid(), os.path.dirname(REPO))
    try:
        run_all(args, baseline, allchecks, seed, tier, names)
    finally:
        if "--isolated" in args:
            sh("git -C /repo worktree remove --force %s; git -C /repo worktree prune" % REPO)
            sh("rm -rf %s /var/tmp/xcp-verif-mut%d /dev/shm/xcp-verif-mut%d" % (os.path.dirname(REPO), os.getpid(), os.getpid()))


def run_all(args, baseline, allchecks, seed, tier, names):
    if sh("git -C %s status --porcelain --untracked-files=no" % REPO).stdout.strip():
        sys.exit("repo working tree is not clean")
    results = []
    for name, path, exp in patches():
        if names and not any(n in name for n in names):
            continue
        r = sh("git -C %s apply %s" % (REPO, path))
        if r.returncode:
            print("%-40s DOES NOT APPLY: %s" % (name, r.stderr.strip()[:200]))
            results.append({"patch": name, "applies": False})
            continue
        try:
            rec = {"patch": name, "applies": True, "seed": seed, "tier": tier, "checks": {}}
            if baseline:
                b = sh(V + "/tools/baseline.sh")
                rec["baseline_ok"] = b.returncode == 0
                if b.returncode:
                    print("%-40s baseline tests FAIL with this change: %s" % (name, b.stdout[-300:]))
            for c in (ALL if allchecks else exp):
                t0 = time.time()
                r = sh("cd %s && %sVERIF_SEED=%d ./check %s --tier %s" % (V, ENV, seed, c, tier))
                sigs = [l.strip()[5:] for l in r.stdout.splitlines() if l.strip().startswith("sig: ")]
                rec["checks"][c] = {"exit": r.returncode, "sigs": sigs[:6], "wall": round(time.time() - t0, 1)}
            caught = [c for c, v in rec["checks"].items() if v["exit"] == 1]
            broken = [c for c, v in rec["checks"].items() if v["exit"] not in (0, 1)]
            print("%-40s caught by %-22s missed by %-18s %s" % (name, ",".join(caught) or "-", ",".join(c for c in rec["checks"] if c not in caught) or "-",
                                                               ("HARNESS-ERROR in " + ",".join(broken)) if broken else ""))
            for c in caught:
                print("      %s: %s" % (c, "; ".join(rec["checks"][c]["sigs"][:3])))
            results.append(rec)
        finally:
            sh("git -C %s checkout -- ." % REPO)
            sh("git -C %s clean -fdq -- libxcp libfs src tests" % REPO)
    hist = []
    if os.path.exists(V + "/mutants/RESULTS.json"):
        hist = json.load(open(V + "/mutants/RESULTS.json"))
    hist = [h for h in hist if not any(h.get("patch") == r["patch"] and h.get("seed") == r.get("seed") and h.get("tier") == r.get("tier") for r in results)] + results
    json.dump(hist, open(V + "/mutants/RESULTS.json", "w"), indent=1)


if __name__ == "__main__":
    main()
