#!/bin/bash
# confirm_seeded.sh <ID> <name>   -- re-check an agent's change in its worktree /tmp/wt/<ID> and store it as /verif/seeded/<name>/
c=$1; name=$2; w=/tmp/wt/$c
cd $w || exit 2
# (no git stash here: the stash is shared between all worktrees of a repository)
echo "== $c: worktree diff == patch.diff, and it reverse-applies?"; git diff -- . ':!patch.diff' | diff -q - patch.diff >/dev/null && git apply --check -R patch.diff && echo yes
echo "== suite with the change:"; CARGO_TARGET_DIR=$w/target CARGO_NET_OFFLINE=true cargo nextest run --workspace --no-fail-fast --test-threads 8 --offline 2>&1 | grep -E "Summary|^\s+FAIL" | sort -u | head -12
if [ -f xcp.orig ]; then
  ./demo.sh $w/xcp.orig > $w.demo.orig.out 2>&1; echo "demo orig -> $?"
  ./demo.sh $w/xcp.mut > $w.demo.mut.out 2>&1; echo "demo mut -> $?"; tail -3 $w.demo.mut.out
fi
mkdir -p /verif/seeded/$name; cp patch.diff NOTES.md demo.sh /verif/seeded/$name/
