#!/bin/bash
# Runs the repository's pinned test suite (guard off) and checks: 126 passed, only the 7 always-fail tests fail.
cd /repo || exit 2
out=$(CARGO_NET_OFFLINE=true cargo nextest run --workspace --no-fail-fast --tool-config-file pb:/w/lib/nextest.toml --profile pb --test-threads 8 --offline 2>&1)
if ! echo "$out" | grep -q "Summary"; then
  out=$(CARGO_NET_OFFLINE=true cargo test --workspace --no-fail-fast --offline 2>&1)
  echo "$out" | grep -E "^test result|FAILED|failed" | head -40
  exit 0
fi
echo "$out" | grep -E "Summary"
fails=$(echo "$out" | grep -E "^\s+FAIL" | sed -E 's/.*\) //' | sort -u)
expected="libfs linux::tests::test_reflink
xcp::common dest_file_exists_not_writable::test_with_parallel_block_driver
xcp::common dest_file_exists_not_writable::test_with_parallel_file_driver
xcp::common unreadable_file_error::test_with_parallel_block_driver
xcp::common unreadable_file_error::test_with_parallel_file_driver
xcp::linux test::file_copy_reflink_always::test_with_parallel_block_driver
xcp::linux test::file_copy_reflink_always::test_with_parallel_file_driver"
if [ "$fails" == "$expected" ] && echo "$out" | grep -q "126 passed"; then echo "BASELINE OK (126 passed, 7 always-fail)"; exit 0; fi
echo "BASELINE MISMATCH"; echo "$fails"; exit 1
