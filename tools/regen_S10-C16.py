"""Regenerate seeded change S10-C16 on the current /repo HEAD (run with /repo clean; then `git -C /repo diff > seeded/S10-C16/patch.diff`
and `git -C /repo checkout -- .`): the per-source validation loop of main() moves into check_source(), and the loop keeps only the
result of the last source."""
p='/repo/src/main.rs'
s=open(p).read()
a=s.index("    // Sanity-check all sources up-front\n")
b=s.index("        targets.push(target_base);\n    }\n")+len("        targets.push(target_base);\n    }\n")
body=s[a:b]
i=body.index("    for source in &sources {\n")+len("    for source in &sources {\n")
j=body.index("        targets.push(target_base);\n")
inner=body[i:j]
ded="\n".join(l[4:] if l.startswith("    ") else l for l in inner.split("\n"))
ded=ded.replace("source == &dest","source == dest").replace("same_dir(source, &dest,","same_dir(source, dest,").replace("is_dir(&dest)?","is_dir(dest)?").replace("source == &target_base","source == target_base")
func='''// Whether `source` can be copied to `dest` at all, and onto which path;
// nothing has been touched yet when this is called.
fn check_source(source: &Path, dest: &Path, opts: &Opts) -> Result<PathBuf> {
'''+ded+'''    Ok(target_base)
}

'''
new_loop='''    // Sanity-check all sources up-front, and name every one that is
    // unusable rather than stopping at the first.
    let mut targets = Vec::with_capacity(sources.len());
    let mut checked: Result<()> = Ok(());
    for source in &sources {
        checked = check_source(source, &dest, &opts).map(|t| targets.push(t));
        if let Err(ref e) = checked {
            error!("{}: {}", source.display(), e);
        }
    }
    checked?;
'''
s=s[:a]+new_loop+s[b:]
k=s.index("fn opts_check(opts: &Opts)")
s=s[:k]+func+s[k:]
open(p,'w').write(s)
