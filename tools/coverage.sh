#!/bin/bash
# coverage.sh [checks...]  -- which lines of /repo do the quick workloads execute?  (diagnostic only; not a check)
cd "$(dirname "$0")/.." || exit 2
BIN=$HOME/.rustup/toolchains/nightly-x86_64-unknown-linux-gnu/lib/rustlib/x86_64-unknown-linux-gnu/bin
COV=/var/tmp/xcp-verif/cov; rm -rf $COV; mkdir -p $COV
(cd /repo && RUSTFLAGS="-Cinstrument-coverage" CARGO_TARGET_DIR=/var/tmp/xcp-verif/target-cov CARGO_NET_OFFLINE=true cargo +nightly build --release --offline -q) || exit 2
export XCP_BIN=/var/tmp/xcp-verif/target-cov/release/xcp LLVM_PROFILE_FILE=$COV/p-%p-%m.profraw VERIF_SCRATCH_TAG=-cov
checks=${@:-C01 C02 C03 C04 C05 C06 C07 C08 C09 C10 C11 C13 C14 C15 C16 C17 C18}
for c in $checks; do ./check $c --tier quick 2>&1 | grep -E "^$c:"; done
ls $COV | wc -l
$BIN/llvm-profdata merge -sparse $COV/*.profraw -o $COV/all.profdata 2>/dev/null
$BIN/llvm-cov report $XCP_BIN -instr-profile=$COV/all.profdata --ignore-filename-regex='(\.cargo|rustc|library)' 2>/dev/null | tail -25
$BIN/llvm-cov show $XCP_BIN -instr-profile=$COV/all.profdata --ignore-filename-regex='(\.cargo|rustc|library)' -show-line-counts-or-regions 2>/dev/null > $COV/show.txt
rm -f $COV/*.profraw; rm -rf /var/tmp/xcp-verif-cov /dev/shm/xcp-verif-cov
