#!/bin/bash
# sweep.sh <tier> <seed...>  -- run every check at the given tier and seeds; summary lines only.
# Under `vp run --with-repo` it uses the /repo snapshot and an isolated scratch space.
cd "$(dirname "$0")/.." || exit 2
tier=$1; shift
if [ -n "$VP_RUN_REPO" ]; then export XCP_REPO=$VP_RUN_REPO; export VERIF_SCRATCH_TAG=-bg$$; fi
./setup.sh >/dev/null
for seed in "$@"; do
  for i in $(seq -w 1 20); do
    c=C$i
    s=$(date +%s)
    out=$(VERIF_SEED=$seed ./check $c --tier $tier 2>&1); rc=$?
    echo "seed=$seed $c rc=$rc $(( $(date +%s) - s ))s :: $(echo "$out" | grep -E "^$c:" )"
    echo "$out" | grep -E "^VIOLATION|^  sig:|^  what:|^INCONCLUSIVE|^HARNESS|^KNOWN" | cut -c1-400
  done
done
[ -n "$VERIF_SCRATCH_TAG" ] && rm -rf /var/tmp/xcp-verif$VERIF_SCRATCH_TAG /dev/shm/xcp-verif$VERIF_SCRATCH_TAG
echo SWEEP-DONE
