#!/usr/bin/env python3
"""Not a property check: ordinary invocations that simply have to work.  Run after every `fix:` commit to /repo, because no
listed property forbids xcp to refuse a legitimate copy (a repair that is too eager would go unnoticed by the checks).

  tools/sanity.py [path-to-xcp]     exit 0 iff every invocation exits 0 and produces an identical copy
"""
import itertools, os, shutil, subprocess, sys, tempfile

X = sys.argv[1] if len(sys.argv) > 1 else "/repo/target/release/xcp"
OPTS = [[], ["--gitignore"], ["--fsync"], ["--no-perms"], ["--no-timestamps"], ["--ownership"], ["-L"], ["-n"], ["--backup", "numbered"], ["--backup", "auto"],
        ["--reflink", "never"], ["--reflink", "auto"], ["--no-progress"], ["--block-size", "4096"], ["-w", "0"], ["-w", "1"], ["-v"], ["-T"], ["--glob"]]
bad = 0


def run(args, cwd):
    r = subprocess.run([X] + args, cwd=cwd, capture_output=True, timeout=60)
    return r.returncode, r.stderr.decode("utf-8", "replace")


def same(a, b):
    import stat
    sa, sb = os.lstat(a), os.lstat(b)
    if stat.S_IFMT(sa.st_mode) != stat.S_IFMT(sb.st_mode):
        return False
    if stat.S_ISLNK(sa.st_mode):
        return os.readlink(a) == os.readlink(b)
    if stat.S_ISREG(sa.st_mode):
        return open(a, "rb").read() == open(b, "rb").read()
    if stat.S_ISDIR(sa.st_mode):
        na, nb = sorted(os.listdir(a)), sorted(os.listdir(b))
        return na == nb and all(same(os.path.join(a, n), os.path.join(b, n)) for n in na)
    return True


for fsroot in ("/var/tmp", "/dev/shm"):
    for driver in ("parfile", "parblock"):
        for opt in OPTS:
            d = tempfile.mkdtemp(prefix="xcp-sanity-", dir=fsroot)
            try:
                os.makedirs(d + "/src/sub/deep")
                os.makedirs(d + "/src/empty")
                for p, n in (("src/a", 100), ("src/sub/b", 70000), ("src/sub/deep/c", 0), ("single", 5000)):
                    open(os.path.join(d, p), "wb").write(os.urandom(n))
                os.symlink("a", d + "/src/l")
                os.symlink("sub", d + "/src/ld")
                os.mkfifo(d + "/src/sub/fifo")
                os.mkfifo(d + "/pipe")
                with open(d + "/sparse", "wb") as f:
                    f.truncate(3 << 20); f.seek(1 << 20); f.write(b"x" * 5000)
                cases = [(["-r", "src", "out1"], "src", "out1"), (["single", "out2"], "single", "out2"), (["sparse", "out3"], "sparse", "out3"),
                         (["pipe", "out4"], None, "out4"), (["./single", d + "/out5"], "single", "out5"), (["-r", "src/", "out6"], "src", "out6")]
                if opt == ["-T"]:
                    cases = [(["-r", "src", "out1"], "src", "out1"), (["single", "out2"], "single", "out2")]
                for args, src, dst in cases:
                    rc, err = run(["--driver", driver] + opt + args, d)
                    ok = rc == 0 and os.path.lexists(os.path.join(d, dst))
                    if ok and src and opt != ["-L"] and "--no-perms" not in opt:
                        ok = same(os.path.join(d, src), os.path.join(d, dst))
                    if not ok:
                        bad += 1
                        print("SANITY-FAIL [%s %s] xcp %s -> rc=%d %s" % (fsroot, driver, " ".join(opt + args), rc, err.strip().splitlines()[:1]))
                if opt == ["--backup", "numbered"] or opt == ["--backup", "auto"]:
                    # odd neighbours must not stop a backup from being made: a "number" in other digits, a name with a sign
                    for odd in ("single.~\u0663~", "single.~+5~", "single.~~"):
                        open(os.path.join(d, odd), "w").write("x")
                    open(os.path.join(d, "bk"), "w").write("old")
                    rc, err = run(["--driver", driver] + opt + ["single", "bk"], d)
                    if rc != 0:
                        bad += 1
                        print("SANITY-FAIL [%s %s] xcp %s single bk -> rc=%d %s" % (fsroot, driver, " ".join(opt), rc, err.strip().splitlines()[:1]))
                    for odd in ("bk.~\u0663~", "bk.~1~.~x~"):
                        open(os.path.join(d, odd), "w").write("x")
                    rc, err = run(["--driver", driver] + opt + ["single", "bk"], d)
                    if rc != 0:
                        bad += 1
                        print("SANITY-FAIL [%s %s] xcp %s single bk (odd neighbours) -> rc=%d %s" % (fsroot, driver, " ".join(opt), rc, err.strip().splitlines()[:1]))
                if opt == ["--glob"]:
                    # patterns: entries of a directory (a file, links to it, a link to a sibling directory), a recursive pattern over
                    # a tree with an ordinary link to a directory, the contents idiom
                    os.symlink("a", d + "/src/l2")
                    os.makedirs(d + "/g1"); os.makedirs(d + "/g2"); os.makedirs(d + "/g3")
                    for args in (["-r", "src/*", "g1"], ["-r", "src/sub/**/*", "g2"], ["-r", "src/.", "g3"], ["-r", "s*", "sing*", "g1"]):
                        rc, err = run(["--driver", driver] + opt + args, d)
                        if rc != 0:
                            bad += 1
                            print("SANITY-FAIL [%s %s] xcp %s -> rc=%d %s" % (fsroot, driver, " ".join(opt + args), rc, err.strip().splitlines()[:1]))
                # a second copy over the first (overwrite) must work for plain files
                rc, err = run(["--driver", driver] + [o for o in opt if o != "-n"] + ["single", "out2"], d)
                if rc != 0 and opt != ["-n"]:
                    bad += 1
                    print("SANITY-FAIL [%s %s] overwrite xcp %s single out2 -> rc=%d %s" % (fsroot, driver, " ".join(opt), rc, err.strip().splitlines()[:1]))
            finally:
                shutil.rmtree(d, ignore_errors=True)
print("sanity: %d failures" % bad)
sys.exit(1 if bad else 0)
