"""C03 -- sources and bystanders are never modified (alias relations, kills, faults)."""
import copy
import os
import random

from .. import core, tree, model, sites
from ..core import b, u
from .c02 import subst

PROP = "C03"
LEVEL = "fault_enumeration"
RULE = ("three families over real executions: (1) alias relations between a source and its mapped destination "
        "(./f, d/../f, own directory, symlink, hard link, -T on a differently spelled / symlinked directory, "
        "destination tree holding hard links or symlinks to the sources, top-level symlink-to-directory sources "
        "under worker-first/walker-first schedules) x driver x block size; (2) SIGKILL before and after each "
        "file-system-mutating system call of a baseline trace; (3) one injected errno at each sandbox-touching "
        "system call. Oracle: content hash + lstat + xattrs + link text of every source and bystander entry "
        "before vs after, whatever the exit status. distinct_nontrivial = distinct (family, alias relation | "
        "kill site | fault site x errno, driver)")
ASSUMPTIONS = ["atime is excluded (the kernel updates it on read)",
               "directories that legitimately receive new children may change mtime/size/nlink",
               "kills are placed at system-call boundaries: between two calls xcp changes nothing on disk"]

FIELDS = ("k", "size", "sha", "mode", "uid", "gid", "mtime_ns", "rdev", "link", "xattrs", "ino")


def F(p, size=300000, seed=11, **kw):
    e = {"p": p, "k": "f", "size": size, "seed": seed, "segs": None, "mode": 0o640, "mtime_ns": 1_500_000_000_123_456_789,
         "xattrs": {"user.note": "keep"}}
    e.update(kw)
    return e


def alias_cases():
    D = lambda p: {"p": p, "k": "d"}
    L = lambda p, t: {"p": p, "k": "l", "target": t}
    H = lambda p, t: {"p": p, "k": "hard", "target": t}
    base = [D("d"), F("d/f"), F("d/g", 7, 12), D("other"), F("other/keep", 99, 13)]
    out = []
    def add(name, spec, args, protected, needs_r=False):
        out.append({"alias": name, "spec": spec, "args": (["-r"] if needs_r else []) + args, "protected": protected})
    add("dot-slash", base + [F("f")], ["f", "./f"], ["f"])
    add("dir-dotdot", base + [F("f")], ["f", "d/../f"], ["f"])
    add("abs-vs-rel", base + [F("f")], ["f", "@ROOT@/f"], ["f"])
    add("own-directory", base, ["d/f", "d"], ["d/f"])
    add("own-directory-slash", base, ["d/f", "d/"], ["d/f"])
    add("symlink-to-source", base + [F("f"), L("lf", "f")], ["f", "lf"], ["f"])
    add("abs-symlink-to-source", base + [F("f"), L("lf", "@ROOT@/f")], ["f", "lf"], ["f"])
    add("hardlink-of-source", base + [F("f"), H("hf", "f")], ["f", "hf"], ["f"])
    add("T-same-dir-respelled", base, ["-T", "d", "./d"], ["d/f", "d/g"], True)
    # a directory copied "into" itself: the destination is the source directory under another spelling (maps to d/d)
    add("dir-into-itself-dot-slash", base, ["d", "./d"], ["d/f", "d/g"], True)
    add("dir-into-itself-abs", base, ["d", "@ROOT@/d"], ["d/f", "d/g"], True)
    add("dir-into-itself-dotdot", base, ["./d", "other/../d"], ["d/f", "d/g"], True)
    add("dir-into-itself-symlink", base + [L("ld", "d")], ["d", "ld"], ["d/f", "d/g"], True)
    add("T-symlink-to-dir", base + [L("ld", "d")], ["-T", "d", "ld"], ["d/f", "d/g"], True)
    add("dest-holds-hardlinks", base + [D("dst"), D("dst/d"), H("dst/d/f", "d/f")], ["d", "dst"], ["d/f", "d/g"], True)
    add("dest-holds-symlinks", base + [D("dst"), D("dst/d"), L("dst/d/f", "../../d/f")], ["d", "dst"], ["d/f", "d/g"], True)
    add("dest-dir-is-symlink-to-source-parent", base + [L("up", ".")], ["d", "up"], ["d/f", "d/g"], True)
    add("toplevel-abs-symlink-to-dir", base + [L("ld", "@ROOT@/d"), D("dst")], ["ld", "dst"], ["d/f", "d/g"], True)
    add("toplevel-rel-symlink-to-dir", base + [D("links"), L("links/ld", "../d"), D("dst")], ["links/ld", "dst"], ["d/f", "d/g"], True)
    add("toplevel-rel-symlink-to-dir-T", base + [L("ld", "d")], ["-T", "ld", "newname"], ["d/f", "d/g"], True)
    # the same relations for entries that are not regular files
    for kind in ("fifo", "sock", "chr"):
        N = {"p": "p", "k": kind, "mode": 0o640}
        if kind == "chr":
            N["rdev"] = [1, 3]
        add("special-%s-dot-slash" % kind, base + [N], ["p", "./p"], ["p"])
        add("special-%s-dir-dotdot" % kind, base + [N], ["p", "d/../p"], ["p"])
        add("special-%s-via-symlinked-dir" % kind, base + [N, L("here", ".")], ["p", "here/p"], ["p"])
        add("special-%s-hardlink" % kind, base + [N, H("hp", "p")], ["p", "hp"], ["p"])
        add("special-%s-in-T-respelled-dir" % kind, [D("d"), F("d/f"), dict(N, p="d/p"), D("other"), F("other/keep", 99, 13)], ["-T", "d", "./d"], ["d/f", "d/p"], True)
    # under -L a link to a special file, copied into the link's own directory: maps onto the link itself
    for kind in ("fifo", "sock", "chr"):
        N = {"p": "x/p", "k": kind, "mode": 0o640}
        if kind == "chr":
            N["rdev"] = [1, 3]
        add("deref-link-to-%s-into-own-dir" % kind, base + [D("x"), N, L("d/lp", "../x/p")], ["-L", "d/lp", "d"], ["d/lp", "x/p"])
        add("deref-link-to-%s-into-own-dir-respelled" % kind, base + [D("x"), N, L("d/lp", "../x/p")], ["-L", "./d/lp", "@ROOT@/d/"], ["d/lp", "x/p"])
    add("deref-link-to-file-into-own-dir", base + [D("x"), F("x/p", 30, 71), L("d/lp", "../x/p")], ["-L", "d/lp", "d"], ["d/lp", "x/p"])
    # bystanders: what an existing destination symlink points to must survive whatever is mapped onto the link
    for kind in ("fifo", "sock", "chr", "l", "d"):
        N = {"p": "src2/p", "k": kind, "mode": 0o640}
        if kind == "chr": N["rdev"] = [1, 3]
        if kind == "l": N = {"p": "src2/p", "k": "l", "target": "nowhere"}
        extra_ = [F("src2/p/inner", 5, 3)] if kind == "d" else []
        add("bystander-behind-link-%s" % kind, base + [D("src2"), N] + extra_ + [D("dst"), D("dst/src2"), L("dst/src2/p", "../../other/keep")], ["src2", "dst"], ["other/keep"], True)
    # a link to a directory elsewhere sitting where a source *sub*directory maps: nothing may be created or changed over there, with
    # or without -L (which changes how the source's links are read, not the destination's)
    nest = [D("src2"), D("src2/p"), F("src2/p/inner", 5, 3), F("src2/p/keep", 6, 4), D("dst"), D("dst/src2"), L("dst/src2/p", "../../other")]
    for opt in ([], ["-L"], ["-L", "--no-perms"], ["--gitignore"]):
        add("dir-onto-nested-dirlink" + "".join(opt), base + nest, opt + ["src2", "dst"], ["other/keep", "other"], True)
    add("dir-onto-nested-dirlink-into-source-L", base + [D("src2"), D("src2/p"), F("src2/p/f", 5, 3), D("src2/q"), F("src2/q/f", 6, 4), D("dst"), D("dst/src2"), L("dst/src2/p", "../../src2/q")],
        ["-L", "src2", "dst"], ["src2/q/f", "src2/p/f"], True)
    # the destination holds, under the name of one source, a link or hard link to *another* source of the same run
    two = [F("a", 3000, 101), F("b", 5000, 102), D("dd")]
    add("dest-symlink-to-other-source", base + two + [L("dd/a", "../b")], ["a", "b", "dd"], ["a", "b"])
    add("dest-symlink-to-other-source-reversed", base + two + [L("dd/a", "../b")], ["b", "a", "dd"], ["a", "b"])
    add("dest-hardlink-of-other-source", base + two + [H("dd/a", "b")], ["a", "b", "dd"], ["a", "b"])
    add("dest-hardlink-of-other-source-reversed", base + two + [H("dd/a", "b")], ["b", "a", "dd"], ["a", "b"])
    # ... the same deeper in a tree, where the other source is met only after the entry that aliases it (in either walk order)
    cross = [D("srcx"), D("srcx/sub"), F("srcx/sub/x", 3000, 103), F("srcx/sub/y", 5000, 104), F("srcx/a", 10, 105), D("dst"), D("dst/srcx"), D("dst/srcx/sub")]
    add("dest-hardlinks-cross-nested", base + cross + [H("dst/srcx/sub/x", "srcx/sub/y"), H("dst/srcx/sub/y", "srcx/sub/x")], ["srcx", "dst"], ["srcx/sub/x", "srcx/sub/y"], True)
    add("dest-symlink-to-later-nested-source", base + cross + [L("dst/srcx/a", "../../srcx/sub/y")], ["srcx", "dst"], ["srcx/sub/y", "srcx/a"], True)
    add("dest-abs-symlink-to-other-source-glob", base + two + [L("dd/a", "@ROOT@/b")], ["--glob", "?", "dd"], ["a", "b"])
    # a source whose last component is `..` (or `.`) has no name of its own: its contents go into the destination, not next to it
    dd = [D("p"), D("p/a"), D("p/a/sub"), F("p/a/f", 21, 95), D("q"), D("q/dd"), F("q/f", 33, 96), D("q/sub"), F("q/sub/keep", 5, 97)]
    add("source-ending-in-dotdot", base + dd, ["p/a/sub/..", "q/dd"], ["q/f", "q/sub/keep", "p/a/f"], True)
    add("source-ending-in-dotdot-slash", base + dd, ["p/a/sub/../", "q/dd/"], ["q/f", "q/sub/keep", "p/a/f"], True)
    add("source-ending-in-dotdot-newdest", base + dd, ["p/a/sub/..", "q/fresh"], ["q/f", "q/sub/keep", "p/a/f"], True)
    add("source-is-dotdot-T", base + dd, ["-T", "p/a/sub/..", "q/dd"], ["q/f", "q/sub/keep", "p/a/f"], True)
    # ... and a link in the destination that leads nowhere: a file copied "through" it would be created at a place nothing maps onto
    add("dangling-link-at-file-destination", base + [D("src2"), F("src2/p", 40, 91), D("dst"), D("dst/src2"), L("dst/src2/p", "../../other/not-there")], ["src2", "dst"], ["other/keep"], True)
    add("dangling-link-at-file-destination-T", base + [F("p", 40, 92), D("dst"), L("dst/q", "@ROOT@/other/not-there")], ["-T", "p", "dst/q"], ["other/keep"], True)
    # ... a relative one whose text, read from the working directory instead of from the link's own directory, does name something
    add("dangling-relative-link-whose-text-resolves-from-cwd", base + [D("pool"), F("pool/conf", 40, 93), F("conf", 40, 94), D("dst"), D("dst/pool"), F("dst/pool/keep", 5, 95), L("dst/conf", "pool/conf")],
        ["conf", "dst"], ["pool/conf", "dst/pool/keep", "dst/pool"], True)
    add("dangling-relative-link-whose-text-resolves-from-cwd-tree", base + [D("pool"), F("pool/conf", 40, 93), D("src3"), F("src3/conf", 40, 94), D("dst"), D("dst/src3"), D("dst/src3/pool"),
                                                                          L("dst/src3/conf", "pool/conf"), D("src3/pool"), F("src3/pool/other", 3, 96)],
        ["-r", "src3", "dst"], ["pool/conf"], True)
    # a top-level source that is a link to a directory is copied as a link; what the link's text happens to designate inside the
    # destination (dst/real) is a bystander and must not receive the directory's children
    add("bystander-named-like-toplevel-dirlink-target", base + [D("real"), F("real/f", 30, 21), L("ld", "real"), D("dst"), D("dst/real"), F("dst/real/f", 40, 22)],
        ["ld", "dst"], ["dst/real/f", "real/f"], True)
    add("bystander-named-like-toplevel-dirlink-target-T", base + [D("real"), F("real/f", 30, 21), L("ld", "real"), D("dst"), D("dst/real"), F("dst/real/f", 40, 22)],
        ["-T", "ld", "dst/newlink"], ["dst/real/f", "real/f"], True)
    # --glob expands the sources only: a destination whose name contains pattern characters is a plain name
    add("glob-destination-with-brackets", base + [F("a.txt", 20, 31), F("b.txt", 30, 32), D("out[1]")], ["--glob", "a.txt", "b.txt", "out[1]"], ["a.txt", "b.txt"])
    add("glob-destination-matches-bystander", base + [F("src.txt", 20, 33), F("dst1", 30, 34)], ["--glob", "src.txt", "dst[1]"], ["src.txt", "dst1"])
    add("glob-destination-star", base + [F("one.txt", 20, 35), F("dst-keep-me", 30, 36), D("dst*")], ["--glob", "one.*", "dst*"], ["one.txt", "dst-keep-me"])
    # two sources of one name: the first is a link whose text, seen from the destination, designates a bystander; the second a file
    add("same-name-link-then-file-through-it", base + [D("s1"), L("s1/x", "../other/keep"), D("s2"), F("s2/x", 50, 61), D("dst")], ["s1/x", "s2/x", "dst"], ["other/keep", "s2/x"])
    add("same-name-link-then-file-through-it-dirs", base + [D("s1"), D("s1/t"), L("s1/t/x", "../../other/keep"), D("s2"), D("s2/t"), F("s2/t/x", 50, 62), D("dst")],
        ["-T", "s1", "s2", "dst"] if False else ["s1/t", "s2/t", "dst"], ["other/keep", "s2/t/x"], True)
    add("same-name-link-then-directory-through-it", base + [D("s1"), L("s1/t", "../other"), D("s2"), D("s2/t"), F("s2/t/keep", 50, 63), D("dst")],
        ["s1/t", "s2/t", "dst"], ["other/keep", "s2/t/keep"], True)
    # a file copied into the directory that holds a directory of the file's own name -- which is where the file lives
    # (with --backup the entry in the way is renamed: that must never be the directory containing the source)
    add("file-into-dir-where-its-own-parent-has-its-name", [D("w"), D("w/f"), F("w/f/f", 30, 81), F("w/f/bystander", 40, 82), D("other"), F("other/keep", 99, 13)],
        ["w/f/f", "w"], ["w/f/f", "w/f/bystander"])
    add("file-into-dir-where-its-own-parent-has-its-name-T", [D("w"), D("w/f"), F("w/f/f", 30, 81), F("w/f/bystander", 40, 82), D("other"), F("other/keep", 99, 13)],
        ["-T", "w/f/f", "w/f"], ["w/f/f", "w/f/bystander"])
    # the source lies inside the very tree it (or an earlier source) is copied onto
    add("source-inside-its-own-target", [D("a"), D("a/b"), D("a/b/b"), F("a/b/b/x", 30, 83), D("a/b/b/b"), F("a/b/b/b/x", 40, 84), D("other"), F("other/keep", 99, 13)],
        ["a/b/b", "a"], ["a/b/b/x", "a/b/b/b/x"], True)
    add("later-source-inside-earlier-target", [D("x"), D("x/sub"), F("x/sub/f", 30, 85), D("dd"), D("dd/x"), D("dd/x/sub"), F("dd/x/sub/f", 40, 86), D("other"), F("other/keep", 99, 13)],
        ["x", "dd/x/sub", "dd"], ["dd/x/sub/f", "x/sub/f"], True)
    add("later-file-source-inside-earlier-target", [D("x"), F("x/f", 30000, 87), D("dd"), D("dd/x"), F("dd/x/f", 40000, 88), D("other"), F("other/keep", 99, 13)],
        ["x", "dd/x/f", "dd"], ["dd/x/f", "x/f"], True)
    add("link-dot-slash", base + [F("f"), L("l", "f")], ["l", "./l"], ["l", "f"])
    add("link-in-T-respelled-dir", [D("d"), F("d/f"), L("d/l", "f"), D("other"), F("other/keep", 99, 13)], ["-T", "d", "./d"], ["d/f", "d/l"], True)
    add("two-sources-one-alias", base + [F("f"), D("dst"), L("dst/f", "../f")], ["other/keep", "f", "dst"], ["f", "other/keep"])
    return out


def gen_cases(tier, seed):
    r = random.Random(seed * 104729 + 3)
    # family 1: alias relations
    scheds = [("os", None), ("role", "worker,dispatcher,walker,copy,main"), ("role", "walker,dispatcher,worker,copy,main"),
              ("pct", None)]
    reps = 1 if tier == "quick" else 6
    variants = [[], ["--backup", "numbered"], ["--backup", "auto"], ["--no-perms", "--no-timestamps", "--backup", "numbered"], ["--fsync", "--ownership"], ["-n"]]
    for ai, a0 in enumerate(alias_cases()):
      for vi, extra in enumerate(variants):
        if vi and tier == "quick" and (ai + vi) % 2 and extra[0] != "--backup":
            continue
        a = copy.deepcopy(a0)
        a["args"] = extra + a["args"]
        a["variant"] = " ".join(extra) or "plain"
        if extra[:2] == ["--backup", "auto"]:
            # auto only acts when a backup exists already: seed one next to every protected file
            a["spec"] = a["spec"] + [F(p_ + ".~1~", 5, 77) for p_ in a["protected"] if any(e["p"] == p_ and e["k"] == "f" for e in a["spec"])]
        for driver in ("parfile", "parblock"):
            for bs in ("64KB", "np"):
                if vi and bs == "np":
                    continue
                for sched, order in (scheds if not vi else scheds[:1]):
                    if not a["alias"].startswith("toplevel") and sched == "role" and tier == "quick":
                        continue
                    nrep = reps * (4 if a["alias"].startswith("toplevel") else 1)
                    for rep in range(nrep if sched != "os" else 1):
                        c = copy.deepcopy(a)
                        c.update({"family": "alias", "driver": driver, "bs": bs, "sched": sched, "order": order,
                                  "sseed": r.randrange(1 << 30), "fs": "ext4"})
                        yield c
    # family 1c: two sources of the same name, the first a link whose text leads (from the destination) to the second, a regular
    # file.  Forced order: a worker's stat of dst/l returns ENOENT -> another worker creates dst/l -> ../s2/l -> the first worker
    # opens dst/l, i.e. the source itself.  Whatever xcp makes of the duplicate name, the source s2/l must stay as it is.
    D_ = lambda p_: {"p": p_, "k": "d"}
    for bs in ("64KB", "np"):
        for rep in range(3 if tier == "quick" else 12):
            yield {"alias": "same-name-link-leads-to-later-source", "spec": [D_("s1"), {"p": "s1/l", "k": "l", "target": "../s2/l"}, D_("s2"), F("s2/l", 70000, 41), D_("dst"),
                                                                              D_("other"), F("other/keep", 99, 13)],
                   "args": ["s1/l", "s2/l", "dst"], "protected": ["s2/l"], "family": "alias", "driver": "parfile", "bs": bs, "sched": "gate", "order": None,
                   "sseed": r.randrange(1 << 30), "fs": "ext4", "gatepaths": {"lp": "dst/l", "fp": "dst/l", "n1role": "worker"}}
    # family 4: ordinary, alias-free copies of sources with unusual metadata (set-ID bits, foreign owners, xattrs, odd times):
    # a successful copy must leave all of it alone
    for i in range(40 if tier == "quick" else 600):
        spec = [{"p": "src", "k": "d", "mode": r.choice([0o755, 0o700, 0o2775, 0o1777])}]
        for j in range(r.randint(2, 6)):
            e = F("src/m%d" % j, r.choice([0, 100, 70000]), r.randrange(1, 1 << 30), mode=r.choice([0o4755, 0o2755, 0o6755, 0o1644, 0o644, 0o600, 0o4711, 0o2644]),
                  mtime_ns=r.choice([1, 978_307_200_123_456_789, 4_000_000_000_500_000_000]))
            e["xattrs"] = r.choice([{}, {"user.a": "1"}, {"user.flag": "", "user.b": "\x00\x01"}])
            if r.random() < 0.6:
                e["uid"], e["gid"] = r.choice([(1000, 1000), (0, 4321), (12345, 0), (65534, 65534)])
            spec.append(e)
        spec.append({"p": "src/lnk", "k": "l", "target": "m0"})
        # links owned by somebody else whose text, seen from the destination, leads to a bystander or back to a source
        spec += [{"p": "by", "k": "d"}, F("by/stander", 50, 77, mode=0o4755), F("by/other", 5, 78, mode=0o2755, uid=0, gid=0),
                 {"p": "src/labs", "k": "l", "target": "@ROOT@/by/stander", "uid": 1234, "gid": 1234},
                 {"p": "src/lrel", "k": "l", "target": "../../by/other", "uid": 4321, "gid": 1234},
                 {"p": "src/lsrc", "k": "l", "target": "@ROOT@/src/m0", "uid": 1234, "gid": 4321}]
        flags = r.choice([[], ["--ownership"], ["--ownership"], ["--no-perms"], ["--no-timestamps"], ["--ownership", "--fsync"], ["-L"], ["--backup", "numbered"],
                          ["--ownership", "--no-perms"]])
        yield {"family": "rich", "spec": spec, "args": ["--driver", ["parfile", "parblock"][i % 2], "-w", "3", "--block-size", "16KB"] + flags + ["-r", "src", "dst"],
               "driver": ["parfile", "parblock"][i % 2], "flags": flags, "fs": "ext4", "fault": r.random() < 0.3}
    # families 2 and 3: baseline cases whose sites are enumerated at run time
    nbase = 4 if tier == "quick" else 40
    for i in range(nbase):
        driver = ["parfile", "parblock"][i % 2]
        spec = [{"p": "src", "k": "d"}] + tree.gen_tree(r, depth=2, fanout=3, kinds=("f", "f", "d", "l"), prefix="src",
                                                        nonutf8=False, max_entries=10, xattrs=True, modes=True, mtimes=True,
                                                        sizes=[0, 100, 70000, 200000])
        spec += [{"p": "by", "k": "d"}, F("by/stander", 500, 21), {"p": "by/link", "k": "l", "target": "stander"}]
        pre = [{"p": "dst", "k": "d"}, {"p": "dst/src", "k": "d"}, F("dst/unrelated", 77, 22)]
        # an older version of one file so that an overwrite happens
        fl = [e for e in spec if e["k"] == "f" and e["p"].startswith("src/") and e["p"].count("/") == 1]
        if fl:
            pre.append(F("dst/" + fl[0]["p"], 1234, 23))
        args = ["--driver", driver, "-w", "2", "--block-size", "64KB", "-r", "src", "dst"]
        yield {"family": "sites", "spec": spec, "pre": pre, "args": args, "driver": driver, "fs": "ext4",
               "max_sites": 60 if tier == "quick" else 100000, "sseed": r.randrange(1 << 30)}
    # alias relations seen from a working directory whose absolute path is longer than PATH_MAX (every path has to stay relative
    # there; whatever cannot be resolved must not be taken for "no relation")
    for driver in ("parfile", "parblock"):
        for name, args in (("source-inside-target-through-link", ["-r", "a/b/b", "lnk"]), ("source-inside-target-dotdot", ["-r", "a/b/b", "other/../a"]),
                           ("file-onto-itself-through-link", ["a/b/b/q", "lnk/b/b/q"]), ("dir-into-itself-through-link", ["-r", "a", "lnk"]),
                           ("file-into-own-dir-dotdot", ["a/b/b/q", "other/../a/b/b"]), ("T-dir-onto-itself-through-link", ["-r", "-T", "a", "lnk"])):
            yield {"family": "deepcwd", "name": name, "args": ["--driver", driver] + args, "driver": driver, "fs": "ext4", "levels": r.choice([17, 18, 20])}


def protected_diff(pre, post, protected, mapped):
    """Differences on protected paths (sources, bystanders)."""
    parents = set()
    for d in mapped:
        parents.update(model.ancestors(d))
    bad = []
    for p in sorted(protected):
        a, c = pre.get(p), post.get(p)
        if a is None:
            continue
        if c is None:
            bad.append(("removed", "%r (%s) disappeared" % (p, a["k"])))
            continue
        for f in FIELDS:
            if a["k"] == "d" and f in ("mtime_ns", "size") and p in parents:
                continue
            if a.get(f) != c.get(f):
                what = "zeroed" if f == "sha" and a["size"] == c["size"] else f
                bad.append((what, "%r: %s changed from %r to %r" % (p, f, str(a.get(f))[:70], str(c.get(f))[:70])))
                break
    return bad


def run_alias(case, res):
    with core.Sandbox(case["fs"], "c03") as sb:
        root = sb.root
        tree.materialize(root, subst(case["spec"], root))
        pre = tree.snapshot(root)
        args = ["--driver", case["driver"], "-w", "3"] + (["--no-progress"] if case["bs"] == "np" else ["--block-size", case["bs"]])
        args += [a.replace("@ROOT@", root) for a in case["args"]]
        if case["sched"] == "os":
            run = core.run_plain(core.xcp_argv(args), root)
        else:
            plan = {"sched": case["sched"], "sched_seed": case["sseed"], "log_mode": "none", "pct_horizon": 200}
            if case["order"]:
                plan["role_order"] = case["order"]
            if case["sched"] == "gate":
                # destination of the link and of the first file copied through it
                dest = [x for x in args if not x.startswith("-")][-1]
                link = os.path.basename(case["args"][-2])
                lp = root + "/" + (dest if "-T" in case["args"] else dest + "/" + link)
                fp = lp + "/f"
                n1extra = {}
                if case.get("gatepaths"):
                    lp, fp = root + "/" + case["gatepaths"]["lp"], root + "/" + case["gatepaths"]["fp"]
                    n1extra = {"role": case["gatepaths"]["n1role"]}
                plan = {"sched": "jitter", "jitter": [100, 300], "sched_seed": case["sseed"], "log_mode": "none", "rules": [
                    dict({"id": "n1", "sys": "statx", "path": fp, "action": "note", "when": "exit"}, **n1extra),
                    {"id": "g1", "sys": "symlink", "path": lp, "action": "hold", "until": "n1", "maxwait_ms": 400},
                    {"id": "n2", "sys": "symlink", "path": lp, "action": "note", "when": "exit"},
                    {"id": "g2", "sys": "openat", "path": fp, "action": "hold", "until": "n2", "maxwait_ms": 400}]}
            run = core.run_xcp(sb, args, plan)
        if run.verdict != "exited":
            res["inconc"].append("run-" + run.verdict)
            return
        post = tree.snapshot(root)
        # protected: the named source files plus everything that is not a destination of this invocation
        protected = set(case["protected"]) | {p for p in pre if p.startswith("other") or p.startswith("d/") or p in ("f", "p", "l", "d", "other", "links")}
        for frag, msg in protected_diff(pre, post, protected, []):
            res["viol"].append({"sig": "alias:%s:%s:%s" % (case["alias"], case.get("variant", "plain"), frag),
                                "what": "%s; exit=%s driver=%s args=%s" % (msg, run.status, case["driver"], " ".join(case["args"]))})
        # nothing may appear next to a source either (e.g. the source itself renamed to a backup name)
        for p in sorted(post):
            if p not in pre and (os.path.dirname(p) in ("", "d") and not p.startswith("dst") and p not in ("newname",)) and not p.startswith("newname"):
                res["viol"].append({"sig": "alias:%s:%s:created-next-to-source" % (case["alias"], case.get("variant", "plain")),
                                    "what": "%r appeared next to the sources; exit=%s driver=%s args=%s" % (p, run.status, case["driver"], " ".join(case["args"]))})
        res["evals"].append({"key": ["alias", case["alias"], case["driver"], case["bs"], case.get("variant", "plain")],
                             "sample": {"alias": case["alias"], "args": case["args"], "driver": case["driver"], "exit": run.status,
                                        "sched": case["sched"]}})
        res["counters"]["alias-runs"] = 1
        if case["sched"] == "gate":
            res["counters"]["gated-runs"] = 1
            res["counters"]["gated-runs-interleaving-achieved"] = int(run.rule("g1")["applied"] > 0 and run.rule("g2")["applied"] > 0 and run.summary.get("gate_timeouts", 1) == 0)
        res["counters"]["alias-exit0" if run.exit0 else "alias-refused"] = 1


def run_sites(case, res):
    with core.Sandbox(case["fs"], "c03") as sb:
        root = sb.root
        def fresh():
            for n in os.listdir(b(root)):
                core.force_rmtree(os.path.join(b(root), n))
            tree.materialize(root, case["spec"])
            tree.materialize(root, case["pre"])
        fresh()
        pre = tree.snapshot(root)
        base = core.run_xcp(sb, case["args"], {"log_mode": "full"})
        if not base.exit0:
            res["inconc"].append("baseline-failed")
            return
        mapping, _ = model.map_sources(pre, root, ["src"], "dst")
        mapped = [m["dst"] for m in mapping]
        protected = {p for p in pre if p not in set(mapped)}
        allsites = sites.enumerate_sites(base.events, root)
        mut = [s for s in allsites if s["mut"]]
        r = random.Random(case["sseed"])
        plans = []
        for s in mut:
            plans.append(("kill-before", s, sites.site_rule(s, "k", action="kill", when="enter")))
            plans.append(("kill-after", s, sites.site_rule(s, "k", action="kill", when="exit")))
        for s in allsites:
            for en in sites.ERRNOS.get(s["sys"], []):
                plans.append(("fault:%d" % en, s, sites.site_rule(s, "k", action="fault", errno=en)))
        if len(plans) > case["max_sites"]:
            plans = r.sample(plans, case["max_sites"])
        res["counters"]["sites-enumerated"] = len(allsites)
        for kind, s, rule in plans:
            fresh()
            pre = tree.snapshot(root)
            run = core.run_xcp(sb, case["args"], {"log_mode": "none", "rules": [rule]})
            if run.verdict not in ("exited", "killed"):
                res["inconc"].append("run-" + run.verdict)
                continue
            if run.rule("k")["applied"] == 0:
                res["counters"]["site-missed"] = res["counters"].get("site-missed", 0) + 1
                continue
            post = tree.snapshot(root)
            # a freshly materialised tree has fresh inode numbers / ctimes; compare with the fields that are deterministic
            for frag, msg in protected_diff(pre, post, protected, mapped):
                res["viol"].append({"sig": "%s:%s:%s" % (kind.split(":")[0], sites.site_sig(s, root), frag),
                                    "what": "%s after %s at %s#%d (driver %s, exit %s/%s)" % (msg, kind, sites.site_sig(s, root), s["nth"], case["driver"], run.verdict, run.status)})
            fam = "kill" if kind.startswith("kill") else "fault"
            res["evals"].append({"key": [fam, kind, sites.site_sig(s, root), s["nth"], case["driver"]]})
            res["counters"][fam + "-runs"] = res["counters"].get(fam + "-runs", 0) + 1
        if res["evals"]:
            res["evals"][-1]["sample"] = {"family": "sites", "args": case["args"], "last_plan": rule}


def run_rich(case, res):
    with core.Sandbox(case["fs"], "c03") as sb:
        root = sb.root
        tree.materialize(root, subst(case["spec"], root))
        pre = tree.snapshot(root)
        plan = {"log_mode": "none"}
        if case["fault"]:
            # a tolerated failure (ownership is documented as a warning) must not make xcp touch the source instead
            plan["rules"] = [{"id": "f", "sys": "fchown", "under": root + "/", "action": "fault", "errno": 1}]
        run = core.run_xcp(sb, case["args"], plan)
        if run.verdict != "exited":
            res["inconc"].append("run-" + run.verdict)
            return
        post = tree.snapshot(root)
        protected = {p for p in pre if p == "src" or p.startswith("src/") or p == "by" or p.startswith("by/")}
        for frag, msg in protected_diff(pre, post, protected, []):
            res["viol"].append({"sig": "rich:%s:%s" % (",".join(case["flags"]) or "default", frag),
                                "what": "%s; exit=%s driver=%s args=%s" % (msg, run.status, case["driver"], " ".join(case["args"]))})
        res["counters"]["rich-runs"] = 1
        res["counters"]["rich-exit0" if run.exit0 else "rich-nonzero"] = 1
        res["evals"].append({"key": ["rich", case["driver"], tuple(case["flags"]), case["fault"]],
                             "sample": {"family": "rich", "args": case["args"], "sources": [{"mode": "%04o" % e.get("mode", 0), "owner": [e.get("uid", 0), e.get("gid", 0)]} for e in case["spec"][1:4]]}})


DEEP_SCRIPT = r"""
d=$(printf 'x%.0s' $(seq 1 250))
i=0; while [ $i -lt $LEVELS ]; do mkdir "$d" || exit 97; cd "$d" || exit 97; i=$((i+1)); done
mkdir -p a/b/b/b other || exit 97
echo OUTER-CONTENT > a/b/b/q; echo INNER > a/b/b/b/q; echo KEEP > other/keep; echo G > a/g
ln -s a lnk
touch -d '2001-02-03 04:05:06' a/b/b/q a/b/b/b/q other/keep a/g
state() { for f in a/b/b/q a/b/b/b/q other/keep a/g; do printf '%s:%s:%s ' "$f" "$(stat -c '%Y.%s.%i.%a' "$f" 2>/dev/null)" "$(sha1sum < "$f" 2>/dev/null | cut -c1-12)"; done; find a other | sort | tr '\n' ' '; }
s0=$(state)
"$XCP" "$@" > /dev/null 2>&1
rc=$?
s1=$(state)
echo "RC=$rc"
echo "BEFORE=$s0"
echo "AFTER=$s1"
"""


def run_deepcwd(case, res):
    import subprocess
    with core.Sandbox(case["fs"], "c03") as sb:
        env = dict(os.environ, XCP=core.xcp_argv([])[0], LEVELS=str(case["levels"]))
        try:
            p = subprocess.run(["bash", "-c", DEEP_SCRIPT, "deep"] + list(case["args"]), cwd=sb.root, env=env, capture_output=True, timeout=120)
        except subprocess.TimeoutExpired:
            res["inconc"].append("run-timeout")
            return
        out = dict(l.split("=", 1) for l in p.stdout.decode("latin-1").splitlines() if "=" in l)
        if p.returncode == 97 or "RC" not in out:
            res["inconc"].append("deep-directory-unavailable")
            return
        tag = "deep cwd (%d levels of 250 characters) %s" % (case["levels"], " ".join(case["args"]))
        if out["BEFORE"] != out["AFTER"]:
            b4, af = out["BEFORE"].split(" "), out["AFTER"].split(" ")
            diff = [x for x in af if x not in b4][:3] + ["-" + x for x in b4 if x not in af][:3]
            res["viol"].append({"sig": "deepcwd:%s:changed" % case["name"], "what": "sources changed (exit %s): %s; %s" % (out["RC"], diff, tag)})
        res["counters"]["deep-cwd-runs"] = 1
        res["counters"]["deep-cwd-exit-" + ("0" if out["RC"] == "0" else "nonzero")] = 1
        res["evals"].append({"key": ["deepcwd", case["name"], case["driver"], case["levels"]], "sample": {"args": case["args"], "exit": out["RC"], "cwd_length": case["levels"] * 251}})


def run_case(case):
    res = {"evals": [], "viol": [], "inconc": [], "counters": {}}
    if case["family"] == "deepcwd":
        run_deepcwd(case, res)
        return res
    if case["family"] == "rich":
        run_rich(case, res)
        return res
    if case["family"] == "alias":
        run_alias(case, res)
    else:
        run_sites(case, res)
    return res
