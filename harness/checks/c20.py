"""C20 -- open descriptors stay bounded regardless of how many files are copied."""
import os
import random

from .. import core, tree, model
from ..core import b, u

PROP = "C20"
LEVEL = "exploration"
RULE = ("trees of N small files (one block each in the main ladder, so that every queued block job pins a file pair of its own; 0-3 blocks, empty, sparse, links in the variants) for N in a geometric ladder, copied under "
        "RLIMIT_NOFILE=1024 by both drivers at fixed worker counts, with the supervisor keeping the dispatcher and walker ahead of the "
        "workers (role priorities: workers lowest, so back-pressure is what stops the dispatcher) and, as controls, free and pct "
        "schedules. The supervisor's shadow descriptor table (cross-checked against /proc/<pid>/fd) yields the peak number of "
        "simultaneously open descriptors. Oracle: exit 0; no system call returns EMFILE/ENFILE; under the slow-workers schedule (saturation is deterministic there) peak(largest N) <= peak(smallest N) + slack at the same driver/workers, and with three rungs growth must persist over the last two steps; free/pct runs are judged on exit status and EMFILE only (the bound may depend on the worker count, not on N). "
        "distinct_nontrivial = distinct (driver, workers, N, schedule)")
ASSUMPTIONS = ["no particular constant is demanded (the pool's queue length is an implementation detail); slack = 16 + 2 x workers descriptors (which workers hold a file pair at the moment of the peak is timing)",
               "N >= 1000 saturates the queue (128 blocks) at every worker count used"]
PROCS = 8


def gen_cases(tier, seed):
    r = random.Random(seed * 160481183 + 20)
    ladder = [1000, 4000] if tier == "quick" else [1000, 4000, 16000]
    workers = [2, 16, 64] if tier == "quick" else [1, 4, 16, 32, 64]
    scheds = [("slow-workers", {"sched": "role", "role_order": "dispatcher,walker,copy,main,worker"})]
    if tier == "thorough":
        scheds += [("free", {"sched": "free"}), ("pct", {"sched": "pct", "sched_d": 3})]
    gid = 0
    for driver in ("parblock", "parfile"):
        for w in workers:
            for sname, sch in scheds:
                if tier == "quick" and w == 64 and driver == "parfile":
                    continue
                for n in ladder:
                    p = dict(sch)
                    p["sched_seed"] = r.randrange(1 << 30)
                    # one block per file: every queued block job then pins a file pair of its own (the worst case for descriptors)
                    yield {"group": gid, "driver": driver, "workers": w, "n": n, "sname": sname, "plan": p, "fs": "ext4", "seed": r.randrange(1 << 30),
                           "content": "oneblock"}
                gid += 1
    # the bound must not depend on what the files look like or on other options either
    variants = [("empty-files", [], "empty"), ("options", ["--fsync", "--backup", "numbered", "--gitignore"], "mixed"), ("deref+links", ["-L"], "links"),
                ("sparse-files", ["--no-perms", "--ownership"], "sparse"), ("many-dirs", [], "dirs"), ("links+specials", ["--ownership"], "nodes"), ("many-sources", [], "sources"),
                ("tolerated-failures", ["--ownership"], "xattrs"), ("backup-every-file", ["--backup", "numbered"], "mixed"),
                # a chain of n nested directories with one file each: the walker must not keep one handle per level
                ("deep-tree", [], "deep"), ("deep-tree-deref", ["-L"], "deep"),
                # ... nor may what is done before the walk: a `**` pattern (matching nothing) next to the tree itself, under --glob
                ("deep-tree-globstar", ["--glob"], "deep"),
                # a refresh of a tree of very many directories with --backup auto (every destination directory is listed)
                ("backup-auto-many-dirs", ["--backup", "auto"], "dirs"), ("backup-auto-many-dirs-b", ["--backup", "auto"], "dirs"),
                # a file-creation mask that takes write and search permission away from the owner (directories come out 0555 / 0444)
                ("many-dirs-umask-0222", [], "dirs"), ("many-dirs-umask-0300", ["--no-perms"], "dirs")]
    for vi, (vname, extra, content) in enumerate(variants):
        for driver in ("parblock", "parfile"):
            if tier == "quick" and (vi + (driver == "parfile")) % 2 and content != "sparse":      # (the two drivers treat sparse files quite differently: both, always)
                continue
            for n in (([300, 1150] if not extra or extra == ["--glob"] else [200, 500]) if content == "deep" else ladder[:2] if tier == "quick" else ladder):
                yield {"group": gid, "driver": driver, "workers": 4, "n": n, "sname": "slow-workers:" + vname, "plan": dict(scheds[0][1], sched_seed=r.randrange(1 << 30)),
                       "fs": "ext4", "seed": r.randrange(1 << 30), "extra": extra, "content": content}
            gid += 1
    # tiny trees: the bound must of course hold there too
    for driver in ("parblock", "parfile"):
        yield {"group": -1, "driver": driver, "workers": 4, "n": 1, "sname": "free", "plan": {"sched": "free"}, "fs": "ext4", "seed": 1}


def run_case(case):
    res = {"evals": [], "viol": [], "inconc": [], "counters": {}, "data": None}
    with core.Sandbox(case["fs"], "c20") as sb:
        root = sb.root
        r = random.Random(case["seed"])
        n = case["n"]
        bs = 4096
        src = os.path.join(b(root), b"src")
        os.makedirs(src)
        blk = tree.body(7, 3 * bs)
        ndirs = max(1, n // 250) if case.get("content") not in ("dirs", "sources") else (n // 2 if case.get("content") == "dirs" else min(400, n // 5))
        for d in range(ndirs):
            # the many-dirs variant nests every tenth directory ten levels deep
            os.makedirs(os.path.join(src, b"d%03d" % d))
        content = case.get("content", "mixed")
        nfiles = n
        if content == "deep":
            cur = src
            for i in range(n):
                cur = os.path.join(cur, b"x")
                os.mkdir(cur)
                with open(os.path.join(cur, b"f"), "wb") as f:
                    f.write(blk[:100])
        for i in range(n if content != "deep" else 0):
            size = 0 if content == "empty" else r.choice([1, 100, bs - 1, bs]) if content == "oneblock" else r.choice([0, 1, bs, bs + 1, 2 * bs + 5, 3 * bs])
            fp = os.path.join(src, b"d%03d" % (i % ndirs), b"f%05d" % i)
            if content == "nodes" and i % 2:
                # symlinks, FIFOs and sockets: nothing of theirs may stay open either
                if i % 4 == 1:
                    os.symlink(b"f%05d" % (i - 1), fp)
                else:
                    os.mknod(fp, (0o010000 if i % 8 == 3 else 0o140000) | 0o644)
                continue
            if content == "links" and i % 3 == 2:
                os.symlink(b"../d%03d/f%05d" % ((i - 1) % ndirs, i - 1), fp)       # with -L a link becomes another regular file
                continue
            with open(fp, "wb") as f:
                if content == "sparse" and i % 2:
                    f.truncate(1 << 20)
                    f.seek(1 << 19)
                    f.write(blk[:bs])
                else:
                    f.write(blk[:size])
            if content == "xattrs":
                os.setxattr(fp, b"user.k", b"v")
        if content == "options":
            pass
        if "--backup" in case.get("extra", []):
            # an older copy is already there, so every file is backed up first
            import shutil
            os.makedirs(os.path.join(b(root), b"dst"))
            shutil.copytree(src, os.path.join(b(root), b"dst", b"src"))
        plan = dict(case["plan"])
        if "umask-" in case["sname"]:
            plan["umask"] = int(case["sname"].rsplit("-", 1)[1], 8)
        plan.update({"log_mode": "none", "nofile": 1024, "max_steps": 800 * n + 600000 + (8 * n * n if content == "deep" else 0), "wall_ms": 600000, "cpu_ms": 300000, "pct_horizon": 2000,
                     "sched_cap_us": 2000})
        args = ["--driver", case["driver"], "-w", str(case["workers"]), "--block-size", str(bs)] + case.get("extra", []) + ["-r", "src", "dst"]
        if "globstar" in case["sname"]:
            args = args[:-2] + ["src/**/zzz*", "src", "dst"]
        if content == "sources":
            # hundreds of sources on the command line (every directory of the tree is named individually)
            os.makedirs(os.path.join(b(root), b"dst"))
            args = args[:-2] + ["src/d%03d" % d for d in range(ndirs)] + ["dst"]
        if content == "xattrs":
            plan["rules"] = [{"id": "o", "sys": "fchown", "under": root + "/", "action": "fault", "errno": 1},
                             {"id": "x", "sys": "fsetxattr", "under": root + "/", "action": "fault", "errno": 95}]
        run = core.run_xcp(sb, args, plan)
        if run.verdict != "exited":
            res["inconc"].append("run-" + run.verdict)
            return res
        tag = "driver=%s workers=%d files=%d sched=%s" % (case["driver"], case["workers"], n, case["sname"])
        s = run.summary
        if s.get("fd_mismatch"):
            res["inconc"].append("fd-table-crosscheck-mismatch")
            return res
        if not run.exit0:
            res["viol"].append({"sig": "%s:nonzero-under-nofile-1024" % case["driver"], "what": "exit %d under RLIMIT_NOFILE=1024: %s; %s" % (run.status, run.stderr[-300:], tag)})
        if s.get("emfile"):
            res["viol"].append({"sig": "%s:emfile" % case["driver"], "what": "%d system call(s) failed with EMFILE/ENFILE; %s" % (s["emfile"], tag)})
        if run.exit0:
            cnt, todo = 0, [os.path.join(b(root), b"dst")]
            while todo:       # (iterative: os.walk recurses, and some of these trees are more than a thousand levels deep)
                d_ = todo.pop()
                with os.scandir(d_) as it:
                    for de in it:
                        if de.is_dir(follow_symlinks=False):
                            todo.append(de.path)
                        elif not de.name.endswith(b"~"):
                            cnt += 1
            if content == "nodes":
                cnt = n
            if cnt != n:
                res["viol"].append({"sig": "%s:files-missing" % case["driver"], "what": "exit 0 but %d of %d files in the destination; %s" % (cnt, n, tag)})
        res["data"] = {"group": case["group"], "n": n, "peak": s["fd_peak"], "driver": case["driver"], "workers": case["workers"], "sname": case["sname"],
                       "opens": s.get("opens"), "checks": s.get("fd_checks")}
        res["counters"]["files-copied"] = n
        res["counters"]["opens-observed"] = s.get("opens", 0)
        res["counters"]["proc-fd-crosschecks"] = s.get("fd_checks", 0)
        res["evals"].append({"key": [case["driver"], case["workers"], n, case["sname"]],
                             "sample": {"args": args, "files": n, "sched": case["plan"], "fd_peak": s["fd_peak"], "opens": s.get("opens"), "exit": run.status}})
    return res


def finalize(rep, cases, results, tier, seed):
    groups = {}
    for c, r in zip(cases, results):
        d = r.get("data")
        if d and d["group"] >= 0:
            groups.setdefault(d["group"], []).append(d)
    table = []
    for gid, runs in sorted(groups.items()):
        runs.sort(key=lambda d: d["n"])
        lo, hi = runs[0], runs[-1]
        table.append({"driver": lo["driver"], "workers": lo["workers"], "sched": lo["sname"], "peaks": {str(d["n"]): d["peak"] for d in runs}})
        # The growth test is only sound where saturation is deterministic: under the slow-workers schedule the dispatcher/walker
        # run until back-pressure stops them, so even the smallest N fills the queue.  Under free/pct schedules how far the
        # producers get ahead is a matter of timing (a small tree may never saturate), so there only exit status and EMFILE count.
        # With three or more rungs the peak must keep growing over the last two steps to be called growth.
        # how many of the workers hold a file pair at the very moment of the peak varies from run to run: the slack grows with them
        slack = 16 + 2 * lo["workers"]
        # ... and a deep chain feeds the dispatcher slowly, so its small rung may not fill the queue: there (only) growth has to be in
        # proportion to the tree, not a step from "queue not yet full" to "queue full"
        deep = "deep-tree" in lo["sname"]
        def grew(a, c):
            return c["peak"] > a["peak"] + slack and (not deep or c["peak"] - a["peak"] >= min(0.4 * (c["n"] - a["n"]), 500))
        growing = len(runs) >= 2 and grew(lo, hi)
        if growing and len(runs) >= 3:
            growing = grew(runs[-2], runs[-1]) and grew(runs[-3], runs[-2])
        if growing and lo["sname"].startswith("slow-workers"):
            rep.violation("%s:peak-grows-with-files" % lo["driver"],
                          "peak open descriptors grows with the number of files: %s (driver %s, workers %d, sched %s)"
                          % ({d["n"]: d["peak"] for d in runs}, lo["driver"], lo["workers"], lo["sname"]),
                          {"cases": [c for c in cases if c["group"] == gid]})
        rep.count("groups-compared")
    rep.extra["peak_table"] = table
