"""C10 -- permissions, timestamps, xattrs and ownership are preserved as requested."""
import os
import random
import time

from .. import core, tree, model, monitors
from ..core import b, u

PROP = "C10"
LEVEL = "exploration"
RULE = ("seeded cases: 4-12 regular files (1 byte .. multi-block) with modes drawn from all 12 permission bits (every special-bit "
        "combination x sampled rwx), mtimes past / future / before 1970 / with nanoseconds, 0-4 user xattrs, uid/gid pairs (the harness is root, "
        "fchown really works; a quarter of the plain runs instead belong to and run as uid 65534 through setpriv) x flag combinations of --no-perms / --no-timestamps / --ownership x umask {0, 022, 077} x fresh or "
        "overwritten destination (different previous mode, mtime, xattrs) x driver x {ext4, tmpfs}; multi-block files run under "
        "lifo / pct schedules so the last block finishes on an arbitrary worker. Oracle on exit 0: mode (07777), mtime_ns, user.* "
        "xattrs (subset with equal values), owner and group with no permission bit lost; with --no-perms the mode is the default "
        "(0666 & ~umask) or the previous one; with --no-timestamps the mtime lies within the run; trace monitor metadata-after-"
        "last-byte. distinct_nontrivial = distinct (driver, flags, special bits, fresh/overwritten, owner changed, fs, schedule)")
ASSUMPTIONS = ["directory and symlink metadata are not claimed by the statement", "atime is not compared"]

MTIMES = [1_000_000_000_000_000_000, 978_307_200_123_456_789, 2_000_000_000_999_999_999, 1_234_567_890_000_000_001, 1, 4_000_000_000_500_000_000,
          # before 1970 (negative seconds, with and without a fractional part), the last nanosecond of 1969, and beyond 2^32 seconds
          -14_182_939_750_000_000, -1, -86_400_000_000_000, -2_000_000_000_123_456_789, 5_000_000_000_000_000_777]


def gen_cases(tier, seed):
    n = 900 if tier == "quick" else 12000
    r = random.Random(seed * 982451653 + 10)
    for i in range(n):
        driver = ["parfile", "parblock"][i % 2]
        flags = []
        if r.random() < 0.3: flags.append("--no-perms")
        if r.random() < 0.3: flags.append("--no-timestamps")
        if r.random() < 0.45: flags.append("--ownership")
        nf = r.randint(4, 12)
        spec, pre = [{"p": "src", "k": "d"}], []
        overwritten = r.random() < 0.4
        if overwritten:
            pre += [{"p": "dst", "k": "d"}, {"p": "dst/src", "k": "d"}]
        for j in range(nf):
            special = r.choice([0, 0, 0o4000, 0o2000, 0o1000, 0o6000, 0o7000, 0o5000, 0o3000])
            rwx = r.choice([0o644, 0o755, 0o600, 0o777, 0o000, 0o444, 0o751, 0o070, 0o007, 0o666, r.randrange(0o1000)])
            e = {"p": "src/f%02d" % j, "k": "f", "size": r.choice([0, 1, 100, 5000, 70000, 200000]), "seed": r.randrange(1, 1 << 30), "segs": None,
                 "mode": special | rwx, "mtime_ns": r.choice(MTIMES) + r.randrange(1000), "atime_ns": r.choice(MTIMES)}
            if r.random() < 0.12:
                # a sparse file with several data segments: the block driver queues each segment on its own, and the metadata
                # belongs after the last block of the last of them
                nseg = r.choice([2, 3, 6, 16])
                e.update({"size": nseg * (1 << 20) + r.choice([0, 5]), "segs": [[k * (1 << 20) + r.choice([0, 4096, 4099]), r.choice([4096, 40000, 200000])] for k in range(nseg)], "sync": True})
            if r.random() < 0.6:
                e["xattrs"] = {"user.a%d" % k: r.choice(["v%d" % r.randrange(10000), "", "\x00\x01\xff bin", "x" * 300]) for k in range(r.randint(1, 4))}
            if e.get("xattrs") and r.random() < 0.3:
                # an attribute outside the user namespace listed *before* the user ones: an unprivileged copier cannot set it
                # (EPERM), which is tolerated -- the user attributes after it still have to arrive
                cap = "\x01\x00\x00\x02\x00\x20\x00\x00\x00\x00\x00\x00\x00\x00\x00\x00\x00\x00\x00\x00"
                e["xattrs"] = dict([("security.capability", cap)] + list(e["xattrs"].items()))
            if r.random() < 0.6:
                e["uid"], e["gid"] = r.choice([(0, 0), (1000, 1000), (1, 2), (65534, 65534), (12345, 0), (0, 54321)])
            spec.append(e)
            if overwritten and r.random() < 0.7:
                pre.append({"p": "dst/" + e["p"], "k": "f", "size": r.choice([0, 10, 100000]), "seed": r.randrange(1, 1 << 30), "segs": None,
                            "mode": r.choice([0o600, 0o666, 0o4755, 0o640]), "mtime_ns": 1_111_111_111_000_000_000,
                            "xattrs": {"user.old": "stale"}, "uid": r.choice([0, 777]), "gid": r.choice([0, 888])})
        sched = r.choice(["os", "os", "lifo", "pct", "role"])
        # an ordinary user's copy: everything belongs to uid/gid 65534 and xcp runs under those ids (no privilege to fall back on)
        unpriv = sched == "os" and "--ownership" not in flags and r.random() < 0.25
        # a refresh: the same command once more after nothing but extended attributes (and, with --ownership, owners) of the sources
        # have changed -- content, length, mode and modification time are what they were
        rt = random.Random(seed * 613 + i)
        refresh = overwritten and sched == "os" and not unpriv and rt.random() < 0.5
        # an ordinary user's copy over files that belong to somebody else but may be written by everybody: the data can be replaced, the
        # mode and the times cannot be set -- that is a failed step, not a warning
        foreign = unpriv and overwritten and rt.random() < 0.6
        yield {"foreign": foreign, "refresh": refresh, "unpriv": unpriv, "spec": spec, "pre": pre, "flags": flags, "driver": driver, "umask": r.choice([0o022, 0o077, 0, 0o027]), "overwritten": overwritten,
               "args": ["--driver", driver, "-w", str(r.choice([0, 1, 2, 4, 8])), "--block-size", "16KB"] + flags
                       + r.choice([[], [], ["--fsync"], ["--reflink", "never"], ["--backup", "numbered"], ["--no-progress"], ["-L"], ["--gitignore"]]) + ["-r", "src", "dst"],
               "sched": sched, "sseed": r.randrange(1 << 30), "fs": "tmpfs" if r.random() < 0.25 else "ext4"}


def run_case(case):
    res = {"evals": [], "viol": [], "inconc": [], "counters": {}}
    with core.Sandbox(case["fs"], "c10") as sb:
        root = sb.root
        tree.materialize(root, case["spec"])
        tree.materialize(root, case["pre"])
        if case.get("unpriv"):
            for dp, dn, fn in os.walk(b(root)):
                for n in dn + fn + [b"."]:
                    q = os.path.join(dp, n)
                    m_ = os.lstat(q).st_mode
                    os.lchown(q, 65534, 65534)
                    if not os.path.islink(q):
                        # chown cleared the set-id bits: put the requested mode back; sources stay readable for their owner
                        # (one unreadable file would fail the whole run and nothing could be judged)
                        os.chmod(q, (m_ & 0o7777) | (0o400 if b"/src/" in q + b"/" or q.endswith(b"/src") else 0))
            for e in case["spec"]:
                # (chown drops file capabilities: put the attribute back, then the mtime the setxattr did not touch anyway)
                if "security.capability" in (e.get("xattrs") or {}):
                    q = os.path.join(b(root), b(e["p"]))
                    os.setxattr(q, b"security.capability", b(e["xattrs"]["security.capability"]))
        if case.get("foreign"):
            for e in case["pre"]:
                if e["k"] == "f":
                    q = os.path.join(b(root), b(e["p"]))
                    os.chown(q, 0, 0)
                    os.chmod(q, 0o666)
            res["counters"]["unprivileged-runs-over-somebody-else's-writable-files"] = 1
        pre = tree.snapshot(root, content=False)
        t0 = time.time_ns()
        if case["sched"] == "os":
            argv = core.xcp_argv(case["args"])
            if case.get("unpriv"):
                argv = ["setpriv", "--reuid", "65534", "--regid", "65534", "--clear-groups"] + argv
                res["counters"]["unprivileged-runs"] = 1
            run = core.run_plain(argv, root, umask=case["umask"])
            events = None
        else:
            plan = {"sched": case["sched"], "sched_seed": case["sseed"], "log_mode": "full", "umask": case["umask"], "pct_horizon": 500}
            if case["sched"] == "role":
                plan["role_order"] = "dispatcher,walker,worker,copy,main"
            if case["sseed"] % 5 == 0:
                # one attribute cannot be stored (ENOTSUP once, as from a second filesystem somewhere inside the destination): that costs
                # one file an attribute (a warning), not the files copied after it theirs
                plan["rules"] = [{"id": "x", "sys": "fsetxattr", "under": root + "/", "action": "fault", "errno": 95, "nth": 1 + case["sseed"] % 3}]
            run = core.run_xcp(sb, case["args"], plan)
            events = run.events
            if plan.get("rules") and run.verdict == "exited" and run.rule("x")["applied"]:
                xattr_excused = 1
                res["counters"]["runs-with-one-attribute-refused"] = 1
        t1 = time.time_ns()
        xattr_excused = locals().get("xattr_excused", 0)
        xattr_misses = []
        if run.verdict != "exited":
            res["inconc"].append("run-" + run.verdict)
            return res
        if not run.exit0:
            res["counters"]["nonzero-exit"] = 1
            return res
        if case.get("refresh"):
            for e in case["spec"]:
                if e["k"] != "f":
                    continue
                q = os.path.join(b(root), b(e["p"]))
                for k, v in (e.get("xattrs") or {}).items():
                    if k.startswith("user."):
                        os.setxattr(q, b(k), b(v) + b"+later")
                os.setxattr(q, b"user.added-later", b"new")
                if "--ownership" in case["flags"] and "security.capability" not in (e.get("xattrs") or {}):
                    os.chown(q, 4242, 2424)
                    os.chmod(q, e["mode"])      # (chown cleared the set-ID bits)
                os.utime(q, ns=(e.get("atime_ns", e["mtime_ns"]), e["mtime_ns"]))
            pre = tree.snapshot(root, content=False)
            t0 = time.time_ns()
            run = core.run_plain(core.xcp_argv(case["args"]), root, umask=case["umask"])
            t1 = time.time_ns()
            if run.verdict != "exited":
                res["inconc"].append("run-" + run.verdict)
                return res
            if not run.exit0:
                res["counters"]["nonzero-exit"] = 1
                return res
            res["counters"]["refresh-runs-after-attribute-changes"] = 1
        post = tree.snapshot(root, content=False)
        mapping, _ = model.map_sources(pre, root, ["src"], "dst")
        files = [m for m in mapping if m["rec"]["k"] == "f"]
        flags = case["flags"]
        perms, times, owner = "--no-perms" not in flags, "--no-timestamps" not in flags, "--ownership" in flags
        ftag = ",".join(sorted(flags)) or "default"
        keys = set()
        for m in files:
            s, d, old = m["rec"], post.get(m["dst"]), pre.get(m["dst"])
            if d is None or d["k"] != "f":
                res["viol"].append({"sig": "%s:missing" % case["driver"], "what": "%s missing in destination" % m["dst"]})
                continue
            ctx = "%s -> %s (src mode %04o uid:gid %d:%d; flags %s; umask %03o; %s; driver %s; fs %s)" % (
                m["src"], m["dst"], s["mode"], s["uid"], s["gid"], ftag, case["umask"], "overwritten (old mode %04o)" % old["mode"] if old else "fresh",
                case["driver"], case["fs"])
            sb_ = "suid" if s["mode"] & 0o4000 else ""
            sb_ += "sgid" if s["mode"] & 0o2000 else ""
            sb_ += "sticky" if s["mode"] & 0o1000 else ""
            sig0 = "%s:%s" % (case["driver"], ftag)
            if perms:
                if d["mode"] != s["mode"]:
                    lost = s["mode"] & ~d["mode"]
                    res["viol"].append({"sig": "%s:mode:%s" % (sig0, "special-bits-lost" if lost & 0o7000 else "rwx"),
                                        "what": "destination mode %04o != source mode %04o; %s" % (d["mode"], s["mode"], ctx)})
                for k, v in s.get("xattrs", {}).items():
                    if k.startswith("user.") and d.get("xattrs", {}).get(k) != v:
                        xattr_misses.append((m["dst"], {"sig": "%s:xattr" % sig0, "what": "xattr %s=%r not copied (dest has %r); %s" % (k, v, d.get("xattrs", {}).get(k), ctx)}))
            else:
                allowed = {0o666 & ~case["umask"]}
                if old:
                    allowed.add(old["mode"])
                    if (owner and (old["uid"], old["gid"]) != (s["uid"], s["gid"])) or case.get("unpriv"):
                        # the kernel clears set-ID bits of the previous mode when the owner is changed, or when an unprivileged process writes to the
                        # file (a destination that already belongs to the source's owner keeps them: D55)
                        allowed |= {old["mode"] & ~0o6000, old["mode"] & ~0o4000, old["mode"] & ~0o2000}
                if d["mode"] not in allowed:
                    res["viol"].append({"sig": "%s:noperms-mode" % sig0, "what": "--no-perms but destination mode is %04o (allowed: %s); %s"
                                        % (d["mode"], ["%04o" % a for a in sorted(allowed)], ctx)})
            if times:
                if d["mtime_ns"] != s["mtime_ns"]:
                    res["viol"].append({"sig": "%s:mtime" % sig0, "what": "destination mtime %d != source mtime %d; %s" % (d["mtime_ns"], s["mtime_ns"], ctx)})
            else:
                if not (t0 - 2_000_000_000 <= d["mtime_ns"] <= t1 + 2_000_000_000):
                    res["viol"].append({"sig": "%s:notimestamps-mtime" % sig0, "what": "--no-timestamps but destination mtime %d is not current (run %d..%d); %s"
                                        % (d["mtime_ns"], t0, t1, ctx)})
            if owner:
                if (d["uid"], d["gid"]) != (s["uid"], s["gid"]):
                    res["viol"].append({"sig": "%s:owner" % sig0, "what": "owner %d:%d != source %d:%d; %s" % (d["uid"], d["gid"], s["uid"], s["gid"], ctx)})
            keys.add((case["driver"], ftag, sb_, bool(old), (s["uid"], s["gid"]) != (0, 0), case["fs"], case["sched"] + ("/unprivileged" if case.get("unpriv") else "")))
        # (a refused attribute excuses the file it was refused on)
        lacking = sorted({p_ for p_, _ in xattr_misses})
        for p_, vi in xattr_misses:
            if not (xattr_excused and len(lacking) <= 1):
                res["viol"].append(vi)
        if events is not None:
            v, o = monitors.metadata_after_last_byte(events, root)
            for frag, msg in v:
                res["viol"].append({"sig": "%s:%s" % (case["driver"], frag), "what": msg + " [sched %s]" % case["sched"]})
            res["counters"]["monitor:meta-calls-checked"] = o["meta_calls"]
            wt = monitors.writer_threads(events, root)
            res["counters"]["files-written-by->1-thread"] = sum(1 for s_ in wt.values() if len(s_) > 1)
        for k in keys:
            res["evals"].append({"key": list(k)})
        if res["evals"]:
            res["evals"][0]["sample"] = {"args": case["args"], "umask": "%03o" % case["umask"], "fs": case["fs"], "sched": case["sched"],
                                         "files": [{"mode": "%04o" % m["rec"]["mode"], "mtime_ns": m["rec"]["mtime_ns"], "owner": [m["rec"]["uid"], m["rec"]["gid"]],
                                                    "xattrs": m["rec"].get("xattrs")} for m in files[:3]]}
        res["counters"]["exit0"] = 1
        res["counters"]["files-compared"] = len(files)
    return res
