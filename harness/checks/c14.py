"""C14 -- FIFOs, sockets and character devices are recreated as identical nodes."""
import os
import random

from .. import core, tree, model
from ..core import b, u

PROP = "C14"
LEVEL = "exploration"
RULE = ("seeded cases: FIFOs, sockets, character devices (device numbers incl. (0,0), (1,3), large majors and 20-bit minors) and, as "
        "negative cases, block devices; modes over the permission bits; umask {0, 022, 077, 027}; as members of a tree or as the sole "
        "source; fresh destination or an existing file / node / live link / dangling link at the mapped path (with and without -n); "
        "both drivers; ext4 and tmpfs; every run under the supervisor with a full trace. Oracle on exit 0: same S_IFMT, same st_rdev "
        "for character devices, mode == source mode & ~umask, an existing entry replaced (new inode) unless -n; trace monitor: no "
        "open() of a special source; a tree containing a block device => exit != 0. distinct_nontrivial = distinct (driver, node "
        "kind, device class, umask, placement, prior entry, fs)")
ASSUMPTIONS = ["the harness runs as root with CAP_MKNOD (creating arbitrary device nodes does not open them)"]

DEVS = [(0, 0), (1, 3), (1, 5), (5, 1), (10, 200), (240, 1048575), (4095, 255), (136, 7), (511, 65536)]


def gen_cases(tier, seed):
    n = 360 if tier == "quick" else 6000
    r = random.Random(seed * 49979693 + 14)
    for i in range(n):
        driver = ["parfile", "parblock"][i % 2]
        sole = r.random() < 0.35
        nodes = []
        k = 1 if sole else r.randint(1, 5)
        spec = [] if sole else [{"p": "src", "k": "d"}, {"p": "src/plain", "k": "f", "size": 10, "seed": 3, "segs": None}, {"p": "src/sub", "k": "d"}]
        if not sole and r.random() < 0.6:
            # regular files of various (also owner-only) modes copied by the other workers at the same time as the nodes
            spec += [{"p": "src/%s%d" % (r.choice(["priv", "sub/priv"]), q), "k": "f", "size": r.choice([0, 100, 70000]), "seed": 20 + q, "segs": None,
                      "mode": r.choice([0o600, 0o600, 0o400, 0o700, 0o644])} for q in range(r.randint(2, 8))]
        hasblk = False
        for j in range(k):
            kind = r.choice(["fifo", "sock", "chr", "chr", "chr"] + (["blk"] if r.random() < 0.15 else []))
            p = ("node%d" % j) if sole else r.choice(["src/node%d" % j, "src/sub/node%d" % j, "src/sub/n\xffode%d" % j])
            if not sole and r.random() < 0.15:
                # a destination path longer than a socket address can hold (108 bytes): a node is made by name, not bound
                cur = "src"
                for lv in range(3):
                    cur += "/" + "long-directory-name-%d-" % lv + "x" * 20
                    if not any(e_["p"] == cur for e_ in spec):
                        spec.append({"p": cur, "k": "d"})
                p = cur + "/node%d" % j
            if r.random() < 0.2:
                # a name as long as a name may be (or nearly): nothing can be put next to it under a longer name
                stem = "node%d-" % j
                p = ("" if sole else "src/") + stem + "y" * (r.choice([247, 250, 254, 255]) - len(stem))
            e = {"p": p, "k": kind, "mode": r.choice([0o644, 0o600, 0o666, 0o777, 0o000, 0o640, 0o444, 0o622, r.randrange(0o1000), 0o1666, 0o2664, 0o4755, 0o7777])}
            if kind in ("chr", "blk"):
                e["rdev"] = list(r.choice(DEVS))
            hasblk |= kind == "blk"
            spec.append(e)
            nodes.append(e)
        if not sole and r.random() < 0.06:
            spec += [{"p": "blkdev-outside", "k": "blk", "rdev": [7, 99]}, {"p": "src/sub/link-to-blk", "k": "l", "target": "../../blkdev-outside"}]
            viaL = True
        else:
            viaL = False
        prior = r.choice(["fresh", "fresh", "file", "node", "link-live", "link-dangling", "dir"])
        if prior == "dir" and sole:
            prior = "fresh"      # `xcp node dir` copies *into* the directory: not a collision
        noclobber = prior != "fresh" and r.random() < 0.25
        pre = []
        if sole:
            dstp = "dst"
        else:
            dstp = "dst/" + nodes[0]["p"]
            if prior != "fresh":
                pre += [{"p": "dst", "k": "d"}, {"p": "dst/src", "k": "d"}, {"p": "dst/src/sub", "k": "d"}]
                par, chain = os.path.dirname(dstp), []
                while par not in ("dst", "dst/src", "dst/src/sub"):
                    chain.append(par)
                    par = os.path.dirname(par)
                pre += [{"p": d_, "k": "d"} for d_ in reversed(chain)]
        if prior == "file":
            pre.append({"p": dstp, "k": "f", "size": 5, "seed": 9, "segs": None})
        elif prior == "node":
            pre.append({"p": dstp, "k": r.choice(["fifo", "sock"]), "mode": 0o1751})
        elif prior == "link-live":
            pre += [{"p": "elsewhere", "k": "f", "size": 7, "seed": 8, "segs": None}, {"p": dstp, "k": "l", "target": ("../" * dstp.count("/")) + "elsewhere"}]
        elif prior == "dir":
            pre += [{"p": dstp, "k": "d"}, {"p": dstp + "/precious", "k": "f", "size": 9, "seed": 6, "segs": None}]
        elif prior == "link-dangling":
            pre.append({"p": dstp, "k": "l", "target": "nowhere-at-all"})
        args = ["--driver", driver, "-w", str(r.choice([0, 1, 2, 4]))] + (["-n"] if noclobber else [])
        args += ["-L"] if viaL else r.choice([[], [], [], ["-L"], ["--gitignore"], ["--fsync"], ["--no-perms"], ["--no-timestamps", "--ownership"], ["--reflink", "never"], ["--no-progress"]])
        hasblk |= viaL
        args += [nodes[0]["p"], "dst"] if sole else ["-r", "src", "dst"]
        # several sources, the node (possibly a block device) not the last of them
        multi = sole and prior == "fresh" and r.random() < 0.5
        if multi and r.random() < 0.5:
            # ... and make that node a block device half of the time: the run has to fail although a valid source follows
            nodes[0].update({"k": "blk", "rdev": [7, 99]})
            hasblk = True
        if multi:
            spec.append({"p": "zlast", "k": "f", "size": 10, "seed": 4, "segs": None})
            pre.append({"p": "dst", "k": "d"})
            args = args[:-2] + [nodes[0]["p"], "zlast", "dst"]
            dstp = "dst/" + nodes[0]["p"]
            if r.random() < 0.4:
                # the node is named twice: whatever is done about the repetition, it is not a reason to open the node
                args = args[:-1] + [nodes[0]["p"], "dst"]
        elif not sole and prior not in ("fresh", "dir") and not noclobber and r.random() < 0.15:
            args = args[:-2] + ["src", "src", "dst"]
        # now and then the node cannot be created (mknod refused: no CAP_MKNOD, immutable directory, unsupported by the file system):
        # exit 0 must still mean that every node is there
        refuse = r.choice([1, 1, 13, 28, 95, 38]) if (not hasblk and prior != "dir" and r.random() < 0.12) else None
        yield {"multi": multi, "refuse": refuse, "refuse_nth": r.randint(1, k), "spec": spec, "pre": pre, "args": args, "driver": driver, "sole": sole, "prior": prior, "noclobber": noclobber, "hasblk": hasblk,
               "umask": r.choice([0, 0o022, 0o077, 0o027]), "fs": "tmpfs" if r.random() < 0.3 else "ext4", "dstp": dstp}


def run_case(case):
    res = {"evals": [], "viol": [], "inconc": [], "counters": {}}
    with core.Sandbox(case["fs"], "c14") as sb:
        root = sb.root
        tree.materialize(root, case["spec"])
        tree.materialize(root, case["pre"])
        pre = tree.snapshot(root)
        rules = [{"id": "refuse", "sys": "mknodat", "under": root + "/", "nth": case["refuse_nth"], "action": "fault", "errno": case["refuse"]}] if case.get("refuse") else []
        run = core.run_xcp(sb, case["args"], {"log_mode": "full", "umask": case["umask"], "rules": rules})
        if case.get("refuse"):
            res["counters"]["mknod-refused-runs"] = 1
            if run.verdict == "exited" and run.rule("refuse")["applied"] and run.exit0:
                res["counters"]["mknod-refused-exit0"] = 1
        if run.verdict != "exited":
            res["inconc"].append("run-" + run.verdict)
            return res
        post = tree.snapshot(root)
        tag = "driver=%s umask=%03o prior=%s fs=%s args=%s" % (case["driver"], case["umask"], case["prior"], case["fs"], " ".join(case["args"]))
        # trace monitor: the special sources are never opened
        specials = {os.path.join(root, e["p"]): e["k"] for e in case["spec"] if e["k"] in ("fifo", "sock", "chr", "blk")}
        nopen = 0
        for ev in run.events:
            if ev.get("ph") == "E" and ev["sys"] in ("openat", "open", "openat2"):
                nopen += 1
                if ev.get("path") in specials:
                    res["viol"].append({"sig": "%s:opened-special:%s" % (case["driver"], specials[ev["path"]]),
                                        "what": "open() of special source %s (%s) by %s; %s" % (ev["path"][len(root) + 1:], specials[ev["path"]], ev.get("role"), tag)})
        res["counters"]["opens-monitored"] = nopen
        if case["prior"] == "dir":
            # a node can never replace a non-empty directory: the run must fail and the directory must survive
            pr = case["dstp"] + "/precious"
            if run.exit0:
                res["viol"].append({"sig": "%s:node-onto-directory-exit0" % case["driver"], "what": "a node maps onto the non-empty directory %s but xcp exited 0; %s" % (case["dstp"], tag)})
            if post.get(pr, {}).get("sha") != pre[pr]["sha"]:
                res["viol"].append({"sig": "%s:directory-destroyed" % case["driver"], "what": "%s was destroyed while trying to place a node at %s; %s" % (pr, case["dstp"], tag)})
            res["evals"].append({"key": [case["driver"], "prior-dir", case["sole"]]})
            return res
        if case["hasblk"]:
            if run.exit0:
                res["viol"].append({"sig": "%s:block-device-exit0" % case["driver"], "what": "tree contains a block device but xcp exited 0; " + tag})
            res["evals"].append({"key": [case["driver"], "blk", case["sole"], "nonzero" if not run.exit0 else "exit0"]})
            return res
        if not run.exit0:
            res["counters"]["nonzero-exit"] = 1
            if not case["noclobber"] and not case["refuse"]:
                # nothing was refused or made to fail, no block device, no --no-clobber: "are copied ... replacing an existing entry"
                res["viol"].append({"sig": "%s:not-copied:%s" % (case["driver"], case["prior"]),
                                    "what": "exit %d although nothing stands in the way of copying the nodes (previous destination: %s): %s; %s" % (run.status, case["prior"], run.stderr.strip()[-200:], tag)})
            res["evals"].append({"key": None})
            return res
        src = [case["spec"][0]["p"]] if case["sole"] else ["src"]
        if case.get("multi"):
            src = [case["spec"][0]["p"], "zlast"]
        mapping, _ = model.map_sources(pre, root, src, "dst")
        keys = set()
        for m in mapping:
            r_, d = m["rec"], post.get(m["dst"])
            if r_["k"] not in ("fifo", "sock", "chr"):
                continue
            ctx = "%s (%s mode %04o rdev %s) -> %s; %s" % (m["src"], r_["k"], r_["mode"], r_["rdev"], m["dst"], tag)
            if d is None:
                res["viol"].append({"sig": "%s:missing:%s" % (case["driver"], r_["k"]), "what": "node not created: " + ctx})
                continue
            if d["k"] != r_["k"]:
                res["viol"].append({"sig": "%s:kind:%s->%s" % (case["driver"], r_["k"], d["k"]), "what": "destination is %s: %s" % (d["k"], ctx)})
                continue
            if r_["k"] == "chr" and d["rdev"] != r_["rdev"]:
                res["viol"].append({"sig": "%s:rdev" % case["driver"], "what": "device number %s instead of %s: %s" % (d["rdev"], r_["rdev"], ctx)})
            if d["mode"] != (r_["mode"] & ~case["umask"]):
                res["viol"].append({"sig": "%s:mode" % case["driver"], "what": "mode %04o instead of %04o & ~%03o = %04o: %s"
                                    % (d["mode"], r_["mode"], case["umask"], r_["mode"] & ~case["umask"], ctx)})
            # (an existing node left in place is caught by the mode check: prior nodes carry the sticky bit, sources never do;
            #  inode numbers cannot be used, the filesystem reuses a freed inode immediately)
            devcls = "n/a" if r_["k"] != "chr" else ("zero" if r_["rdev"] == [0, 0] else "bigminor" if r_["rdev"][1] > 255 else "bigmajor" if r_["rdev"][0] > 255 else "small")
            keys.add((case["driver"], r_["k"], devcls, case["umask"], "sole" if case["sole"] else "tree", case["prior"] if m["dst"] == case["dstp"] else "fresh", case["fs"]))
        if case["prior"] != "fresh" and case["noclobber"]:
            res["viol"].append({"sig": "%s:noclobber-exit0" % case["driver"], "what": "-n with an existing entry at %s but exit 0; %s" % (case["dstp"], tag)})
        if case["prior"] == "link-live":
            e0, e1 = pre.get("elsewhere"), post.get("elsewhere")
            if e1 is None or e0["sha"] != e1.get("sha") or e0["k"] != e1["k"]:
                res["viol"].append({"sig": "%s:link-target-clobbered" % case["driver"], "what": "the target of the replaced link changed; " + tag})
        for k in keys:
            res["evals"].append({"key": list(k)})
        if res["evals"]:
            res["evals"][0]["sample"] = {"args": case["args"], "umask": "%03o" % case["umask"], "nodes": [e for e in case["spec"] if e["k"] not in ("d", "f")][:4],
                                         "prior": case["prior"], "fs": case["fs"]}
        res["counters"]["exit0"] = 1
    return res
