"""C08 -- --no-clobber never alters anything that already exists in the destination."""
import os
import random

from .. import core, tree, model, monitors
from ..core import b, u

PROP = "C08"
PROBES = ("probe_xcp",)
PROBE_BIN = {}
LEVEL = "exploration"
RULE = ("seeded cases: 3-12 sources (multi-block and small files, links, FIFOs, sockets, directories) copied with -n into an "
        "existing directory pre-populated with entries of every kind (file, directory, FIFO, socket, link to an existing file, "
        "dangling link, a hard link of the source entry itself) at the mapped path of a random subset of the sources (first / middle / last position) plus unrelated "
        "entries; both drivers; schedules free / pct / walker-first / workers-first so the walker's existence check races with "
        "active workers; combined with --backup {numbered, auto, auto with an existing backup}, --fsync, --no-perms, --no-timestamps, --ownership, --gitignore, --reflink, --no-progress. Oracle: (a) every pre-existing destination entry has the same kind, inode, bytes, mode, mtime, ctime "
        "(files), link text and device number afterwards; (b) if a source file, link or special node maps onto an existing entry "
        "(by lstat) the exit status is non-zero; (c) trace monitor: no mutating system call on a pre-existing destination inode "
        "or path. distinct_nontrivial = distinct (driver, kind of colliding source, kind of existing entry, position class, schedule)")
ASSUMPTIONS = ["a directory source colliding with an existing directory may be accepted or refused (not demanded)",
               "directories may change mtime when new children are legitimately created in them"]

EXIST_KINDS = ["file", "dir", "fifo", "sock", "link-live", "link-dangling", "link-to-dir"]


def gen_single_T(r, count):
    """-n with -T: one source onto one existing path."""
    for i in range(count):
        driver = ["parfile", "parblock"][i % 2]
        sk = r.choice(["f", "fbig", "l", "fifo", "d"])
        spec = {"f": [{"p": "n00", "k": "f", "size": 500, "seed": 3, "segs": None}], "fbig": [{"p": "n00", "k": "f", "size": 200000, "seed": 4, "segs": None}],
                "l": [{"p": "n00", "k": "l", "target": "nowhere"}], "fifo": [{"p": "n00", "k": "fifo"}],
                "d": [{"p": "n00", "k": "d"}, {"p": "n00/inner", "k": "f", "size": 9, "seed": 5, "segs": None}]}[sk]
        ek = r.choice(["file", "file", "link-live", "link-dangling", "fifo"] + (["dir"] if sk == "d" else []))
        pre = [{"p": "elsewhere", "k": "d"}, {"p": "elsewhere/real", "k": "f", "size": 12, "seed": 5, "segs": None}]
        if ek == "file":
            pre.append({"p": "dst", "k": "f", "size": 77, "seed": 9, "segs": None, "mode": 0o640, "mtime_ns": 1_000_000_000_000_000_001})
        elif ek == "dir":
            pre += [{"p": "dst", "k": "d"}, {"p": "dst/inner", "k": "f", "size": 3, "seed": 8, "segs": None}, {"p": "dst/other", "k": "f", "size": 3, "seed": 7, "segs": None}]
        elif ek == "fifo":
            pre.append({"p": "dst", "k": "fifo"})
        elif ek == "link-live":
            pre.append({"p": "dst", "k": "l", "target": "elsewhere/real"})
        else:
            pre.append({"p": "dst", "k": "l", "target": "elsewhere/created-through-link"})
        extra = r.choice([[], [], ["--backup", "numbered"], ["--fsync"], ["--no-perms"]])
        args = ["--driver", driver, "-w", "2", "--block-size", "16KB", "-n", "-T", "-r"] + extra + ["n00", r.choice(["dst", "./dst", "@ROOT@/dst"])]
        colls = [[0, sk, ek]] if not (sk == "d" and ek == "dir") else [[0, "d", "dir"]]
        yield {"spec": spec, "pre": pre, "args": args, "driver": driver, "colls": colls, "pos": "T-single", "plan": {"sched": "free", "sched_seed": 1}, "fs": "ext4", "single_T": True}


def gen_same_name_race(r, count):
    """Two sources with the same basename, the first a symlink to a name that already exists in the destination, the second
    a regular file; supervisor gates force: walker probes dst/l for both sources -> a worker creates dst/l -> B -> the other
    worker opens dst/l.  Whatever xcp does with the duplicate name, the pre-existing dst/B must survive."""
    for i in range(count):
        spec = [{"p": "s1", "k": "d"}, {"p": "s1/B", "k": "f", "size": 3, "seed": 2, "segs": None}, {"p": "s1/l", "k": "l", "target": "B"}, {"p": "s2", "k": "d"},
                {"p": "s2/l", "k": "f", "size": r.choice([10, 70000]), "seed": r.randrange(1, 1 << 30), "segs": None}]
        pre = [{"p": "dst", "k": "d"}, {"p": "dst/B", "k": "f", "size": 77, "seed": 9, "segs": None, "mode": 0o640, "mtime_ns": 1_000_000_000_000_000_001},
               {"p": "elsewhere", "k": "d"}, {"p": "elsewhere/real", "k": "f", "size": 12, "seed": 5, "segs": None}]
        args = ["--driver", "parfile", "-w", str(r.choice([2, 4])), "--block-size", "16KB", "-n", "s1/l", "s2/l", "dst"]
        yield {"spec": spec, "pre": pre, "args": args, "driver": "parfile", "colls": [], "pos": "same-name-race", "fs": "ext4", "gated": True,
               "plan": {"sched": "free", "sched_seed": r.randrange(1 << 30)}}


def gen_cases(tier, seed):
    n = 1000 if tier == "quick" else 12000
    r = random.Random(seed * 67867967 + 8)
    for c in gen_single_T(r, 120 if tier == "quick" else 1500):
        yield c
    for c in gen_same_name_race(r, 6 if tier == "quick" else 60):
        yield c
    for i in range(n):
        driver = ["parfile", "parblock"][i % 2]
        k = r.randint(3, 12)
        spec, names, kinds = [], [], []
        for j in range(k):
            nm = "n%02d" % j
            kind = r.choice(["f", "f", "fbig", "l", "fifo", "sock", "d"])
            if kind == "f":
                spec.append({"p": nm, "k": "f", "size": r.choice([0, 1, 500, 5000]), "seed": r.randrange(1, 1 << 30), "segs": None})
            elif kind == "fbig":
                spec.append({"p": nm, "k": "f", "size": r.choice([70000, 300000]), "seed": r.randrange(1, 1 << 30), "segs": None})
            elif kind == "l":
                spec.append({"p": nm, "k": "l", "target": r.choice(["n00", "nowhere", "keep/x"])})
            elif kind in ("fifo", "sock"):
                spec.append({"p": nm, "k": kind})
            else:
                spec.append({"p": nm, "k": "d"})
                spec.append({"p": nm + "/inner", "k": "f", "size": 100, "seed": r.randrange(1, 1 << 30), "segs": None})
                spec.append({"p": nm + "/sub", "k": "d"})
                spec.append({"p": nm + "/sub/deep", "k": "f", "size": 10, "seed": r.randrange(1, 1 << 30), "segs": None})
            names.append(nm)
            kinds.append(kind)
        pre = [{"p": "dst", "k": "d"}, {"p": "dst/zz-unrelated", "k": "f", "size": 40, "seed": 3, "segs": None, "mode": 0o600},
               {"p": "dst/zz-dir", "k": "d"}, {"p": "dst/zz-dir/x", "k": "f", "size": 4, "seed": 4, "segs": None},
               {"p": "elsewhere", "k": "d"}, {"p": "elsewhere/real", "k": "f", "size": 12, "seed": 5, "segs": None}]
        ncoll = r.choice([0, 1, 1, 1, 2, 3])
        posclass = r.choice(["first", "middle", "last", "random"])
        idxs = {"first": [0], "middle": [k // 2], "last": [k - 1], "random": r.sample(range(k), min(k, max(1, ncoll)))}[posclass]
        if ncoll == 0:
            idxs = []
        colls = []
        for j in idxs[:max(1, ncoll)] if ncoll else []:
            ek = r.choice(EXIST_KINDS + (["hardlink-of-source", "hardlink-of-source"] if kinds[j] in ("f", "fbig", "fifo", "sock") else []))
            p = "dst/" + names[j]
            if ek == "hardlink-of-source":
                # the existing entry is another name of the very source entry (a hard-linked snapshot of the tree)
                pre.append({"p": p, "k": "hard", "target": names[j]})
            elif ek == "file":
                pre.append({"p": p, "k": "f", "size": 77, "seed": 9, "segs": None, "mode": 0o640, "mtime_ns": 1_000_000_000_000_000_001})
            elif ek == "dir":
                pre.append({"p": p, "k": "d"})
                pre.append({"p": p + "/old", "k": "f", "size": 5, "seed": 10, "segs": None})
            elif ek in ("fifo", "sock"):
                pre.append({"p": p, "k": ek})
            elif ek == "link-live":
                pre.append({"p": p, "k": "l", "target": "../elsewhere/real"})
            elif ek == "link-to-dir":
                pre.append({"p": p, "k": "l", "target": "../elsewhere"})
            else:
                pre.append({"p": p, "k": "l", "target": "../elsewhere/created-through-link"})
            colls.append([j, kinds[j], ek])
        sch = r.choice([{"sched": "free"}, {"sched": "pct", "sched_d": 2}, {"sched": "role", "role_order": "walker,dispatcher,copy,main,worker"},
                        {"sched": "role", "role_order": "worker,dispatcher,walker,copy,main"}, {"sched": "jitter", "jitter": [300, 2000]}])
        sch["sched_seed"] = r.randrange(1 << 30)
        # no-clobber must hold whatever else is asked for
        extra = []
        bk = r.choice(["", "", "numbered", "auto", "auto-with-backup"])
        if bk:
            extra += ["--backup", bk.split("-")[0]]
            if bk == "auto-with-backup":
                for j, sk, ek in colls:
                    if ek == "file":
                        pre.append({"p": "dst/%s.~3~" % names[j], "k": "f", "size": 6, "seed": 12, "segs": None})
        for o in ("--fsync", "--no-perms", "--no-timestamps", "--ownership", "--gitignore", "-L", "-v"):
            if r.random() < 0.15:
                extra.append(o)
        if r.random() < 0.2:
            extra += ["--reflink", r.choice(["never", "auto"])]
        if r.random() < 0.15:
            extra.append("--no-progress")
        # (the last spelling goes through a link to a directory elsewhere: `elsewhere/up/..` is the sandbox root only for who resolves
        # the link; read as text it would be `elsewhere`, where there is no `dst`)
        dsp = r.choice(["dst", "dst", "dst/", "./dst", "@ROOT@/dst", "elsewhere/../dst", "elsewhere/up/../dst", "elsewhere/up/../dst/"])
        if "elsewhere/up" in dsp:
            pre = pre + [{"p": "upstairs", "k": "d"}, {"p": "elsewhere/up", "k": "l", "target": "../upstairs"}]
        form = r.choice(["plain", "plain", "plain", "target-directory", "glob"])
        srcargs = list(names)
        if form == "glob":
            extra.append("--glob")
            srcargs = ["n[0-9][0-9]"] if r.random() < 0.5 else ["n0*", "n1*"] if k > 10 else ["n*"]
        base = ["--driver", driver, "-w", str(r.choice([0, 1, 2, 4, 8])), "--block-size", "16KB", "-n", "-r"] + extra
        args = base + (["--target-directory", dsp] + srcargs if form == "target-directory" else srcargs + [dsp])
        # one case in ten goes through the library instead of the command line (a client whose updater ignores Error updates
        # only has copy()'s return value to learn about the conflict)
        api = None
        if r.random() < 0.3 and not any(x in extra for x in ("--backup", "--glob", "-L", "--ownership", "-v", "--reflink", "--no-progress")) and form == "plain":
            api = {"updater": r.choice(["noop", "noop", "record", "channel"]), "mode": r.choice(["live", "after"]),
                   "flags": ["--no-clobber"] + [f for f in extra if f in ("--fsync", "--no-perms", "--no-timestamps", "--gitignore")]}
        yield {"api": api, "spec": spec, "pre": pre, "args": args, "driver": driver, "colls": colls, "pos": posclass if ncoll else "none", "plan": sch, "fs": "ext4", "names": list(names)}


FIELDS_FILE = ("k", "ino", "size", "sha", "mode", "mtime_ns", "ctime_ns", "uid", "gid", "xattrs")
FIELDS_DIR = ("k", "ino", "mode", "uid", "gid")
FIELDS_OTHER = ("k", "ino", "mode", "link", "rdev", "mtime_ns")


def run_case(case):
    res = {"evals": [], "viol": [], "inconc": [], "counters": {}}
    with core.Sandbox(case["fs"], "c08") as sb:
        root = sb.root
        tree.materialize(root, case["spec"])
        tree.materialize(root, case["pre"])
        pre = tree.snapshot(root)
        plan = dict(case["plan"])
        plan.update({"log_mode": "full", "pct_horizon": 300})
        if case.get("gated"):
            lp = root + "/dst/l"
            plan["rules"] = [{"id": "n1", "sys": "statx", "path": lp, "action": "note", "when": "exit"},
                             {"id": "g1", "sys": "symlink", "path": lp, "action": "hold", "until": "n1", "count": 2, "maxwait_ms": 400},
                             {"id": "n2", "sys": "symlink", "path": lp, "action": "note", "when": "exit"},
                             {"id": "g2", "sys": "openat", "path": lp, "action": "hold", "until": "n2", "maxwait_ms": 400}]
        if case.get("api"):
            plan["driver"] = case["driver"]
            argv = [PROBE_BIN["probe_xcp"], case["driver"], case["api"]["updater"], case["api"]["mode"], "4", "16384"] + case["api"]["flags"] + ["--"] + case["names"] + ["dst"]
            run = core.run_supervised(sb, argv, plan)
            res["counters"]["library-api-runs"] = 1
        else:
            run = core.run_xcp(sb, [a.replace("@ROOT@", root) for a in case["args"]], plan)
        if run.verdict != "exited":
            res["inconc"].append("run-" + run.verdict)
            return res
        post = tree.snapshot(root)
        existing = {p: rec for p, rec in pre.items() if p == "dst" or p.startswith("dst/")}
        if case.get("single_T") and case["colls"][0][1] == "d" and case["colls"][0][2] == "dir":
            existing = {p: rec for p, rec in existing.items() if p != "dst"}   # merging into an existing directory may touch its mtime
        tag = "driver=%s collisions=%s sched=%s exit=%d" % (case["driver"], case["colls"], case["plan"]["sched"], run.status)
        # (a) snapshot of pre-existing entries
        for p, a in sorted(existing.items()):
            c = post.get(p)
            if c is None:
                res["viol"].append({"sig": "%s:removed:%s" % (case["driver"], a["k"]), "what": "pre-existing %r (%s) was removed; %s" % (p, a["k"], tag)})
                continue
            fields = FIELDS_FILE if a["k"] == "f" else FIELDS_DIR if a["k"] == "d" else FIELDS_OTHER
            for f in fields:
                if a.get(f) != c.get(f):
                    res["viol"].append({"sig": "%s:changed:%s:%s" % (case["driver"], a["k"], f),
                                        "what": "pre-existing %r (%s): %s changed from %r to %r; %s" % (p, a["k"], f, a.get(f), c.get(f), tag)})
                    break
        # entries the pre-existing links point to (written through a link?)
        for p in ("elsewhere", "elsewhere/real"):
            for f in ("k", "ino", "size", "sha", "mode"):
                if pre[p].get(f) != post.get(p, {}).get(f):
                    res["viol"].append({"sig": "%s:through-link:changed" % case["driver"], "what": "%r changed (%s) although only reachable through a pre-existing destination link; %s" % (p, f, tag)})
                    break
        for p in post:
            if p.startswith("elsewhere/") and p not in pre:
                res["viol"].append({"sig": "%s:through-link:created" % case["driver"], "what": "%r was created through a pre-existing dangling destination link; %s" % (p, tag)})
        # (b) collision => non-zero
        hard = [c for c in case["colls"] if c[1] != "d"]
        if hard and run.exit0:
            for j, sk, ek in hard:
                res["viol"].append({"sig": "%s:collision-exit0:%s-onto-%s" % (case["driver"], "f" if sk == "fbig" else sk, ek),
                                    "what": "source n%02d (%s) maps onto an existing %s but xcp exited 0; %s" % (j, sk, ek, tag)})
        # (c) trace monitor
        inos = {"%d:%d" % (rec["dev"], rec["ino"]): p for p, rec in existing.items() if rec["k"] != "d"}
        paths = {os.path.join(root, p): rec["k"] for p, rec in existing.items()}
        nchk = 0
        for ent, ex in core.pairs(run.events):
            if not core.is_mutating(ent):
                continue
            nchk += 1
            hit = None
            if ent.get("ino") in inos and ent["sys"] not in ("openat", "open"):
                hit = "%s on pre-existing inode of %s" % (ent["sys"], inos[ent["ino"]])
            elif ent["sys"] in ("unlink", "unlinkat", "rename", "renameat", "renameat2", "chmod", "fchmodat", "truncate", "rmdir", "lchown", "chown") \
                    and ent.get("path") in paths:
                hit = "%s of pre-existing path %s" % (ent["sys"], ent["path"][len(root) + 1:])
            elif ent["sys"] in ("openat", "open") and ent.get("path") in paths and paths[ent["path"]] != "d" and (core.open_flags(ent) & core.O_TRUNC):
                hit = "open(O_TRUNC) of pre-existing path %s" % ent["path"][len(root) + 1:]
            if hit and (ex is None or ex.get("ret", -1) >= 0):
                res["viol"].append({"sig": "%s:trace:%s" % (case["driver"], ent["sys"]), "what": "%s (seq %d, role %s); %s" % (hit, ent["seq"], ent.get("role"), tag)})
        res["counters"]["mutating-calls-monitored"] = nchk
        if case.get("gated"):
            res["counters"]["gated-runs"] = 1
            res["counters"]["gated-interleaving-achieved"] = int(run.rule("g1")["applied"] > 0 and run.rule("g2")["applied"] > 0 and run.summary.get("gate_timeouts", 1) == 0)
        res["counters"]["pre-existing-entries-checked"] = len(existing)
        res["counters"]["exit0" if run.exit0 else "nonzero"] = 1
        if hard:
            res["counters"]["runs-with-hard-collision"] = 1
        ck = sorted({("f" if c[1] == "fbig" else c[1], c[2]) for c in case["colls"]})
        res["evals"].append({"key": [case["driver"], ck, case["pos"], case["plan"]["sched"]] if case["colls"] else None,
                             "sample": {"args": case["args"], "collisions": case["colls"], "position": case["pos"], "sched": case["plan"], "exit": run.status}})
        res["counters"]["opt:" + ("backup" if "--backup" in case["args"] else "plain")] = 1
    return res
