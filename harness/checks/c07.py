"""C07 -- xcp always terminates: no deadlock, no spin, with or without errors (bounded-progress form)."""
import json
import os
import random

from .. import core, tree, model, sites
from ..core import b, u
from . import c04

PROP = "C07"
LEVEL = "fault_enumeration"
RULE = ("liveness restated as bounded progress: every supervised execution must reach process exit without the supervisor's "
        "logical deadlock detector (every live thread inside an untimed blocking call -- futex wait without timeout, open/read of "
        "a FIFO -- no thread held, no event and no tracee CPU for 3 s) or livelock detectors (step budget, tracee CPU budget) firing; "
        "a wall-clock watchdog is inconclusive. Families: (A) termination-specific inputs (empty trees, only FIFOs/sockets, FIFO or "
        "socket as sole source, FIFO named .gitignore with --gitignore, hundreds of files, dangling links) x drivers x workers 1..64 x "
        "schedules; (B) one injected errno at every sandbox-touching call of baseline traces (walker failing while the queue is long, "
        "a worker failing while others are mid-file) under free / walker-first / workers-first schedules; (C) the library API through "
        "probe_xcp: copy() returns, and the update channel is disconnected, for ChannelUpdater / NoopUpdater / a recording updater, "
        "draining live or after. distinct_nontrivial = distinct (family, input or fault site x errno, driver, workers, schedule kind)")
ASSUMPTIONS = ["absent signals and timers (xcp installs none) a process whose live threads are all in untimed blocking calls can never run again",
               "an unbounded 'always terminates' is not claimed: only absence of deadlock/livelock states on the executions produced"]
PROBES = ("probe_xcp",)

SCHEDS = [{"sched": "free"}, {"sched": "pct", "sched_d": 2}, {"sched": "role", "role_order": "walker,dispatcher,copy,main,worker"},
          {"sched": "role", "role_order": "worker,dispatcher,walker,copy,main"}, {"sched": "role", "role_order": "worker,walker,dispatcher,copy,main"},
          {"sched": "lifo"}, {"sched": "role", "role_order": "main,copy,dispatcher,walker,worker"}]


def F(p, size, seed, **kw):
    e = {"p": p, "k": "f", "size": size, "seed": seed, "segs": None}
    e.update(kw)
    return e


def input_trees(r):
    D = lambda p: {"p": p, "k": "d"}
    out = {}
    out["empty-dir"] = ([D("src")], ["-r", "src", "dst"])
    out["empty-nested"] = ([D("src"), D("src/a"), D("src/a/b"), D("src/c")], ["-r", "src", "dst"])
    out["only-specials"] = ([D("src"), {"p": "src/f1", "k": "fifo"}, {"p": "src/f2", "k": "fifo"}, {"p": "src/s1", "k": "sock"},
                             D("src/d"), {"p": "src/d/f3", "k": "fifo"}, {"p": "src/d/s2", "k": "sock"}], ["-r", "src", "dst"])
    out["fifo-sole-source"] = ([{"p": "ff", "k": "fifo"}], ["ff", "dst"])
    out["sock-sole-source"] = ([{"p": "ss", "k": "sock"}], ["ss", "dst"])
    out["fifo-with-dereference"] = ([D("src"), {"p": "src/ff", "k": "fifo"}, F("src/a", 10, 1)], ["-r", "-L", "src", "dst"])
    out["link-to-fifo-dereference"] = ([D("src"), {"p": "src/ff", "k": "fifo"}, {"p": "src/lf", "k": "l", "target": "ff"}], ["-r", "-L", "src", "dst"])
    out["gitignore-fifo"] = ([D("src"), {"p": "src/.gitignore", "k": "fifo"}, F("src/a", 10, 1)], ["-r", "--gitignore", "src", "dst"])
    out["gitignore-dir"] = ([D("src"), D("src/.gitignore"), F("src/a", 10, 1)], ["-r", "--gitignore", "src", "dst"])
    out["gitignore-link-to-fifo"] = ([D("src"), {"p": "src/ff", "k": "fifo"}, {"p": "src/.gitignore", "k": "l", "target": "ff"}, F("src/a", 10, 1)],
                                     ["-r", "--gitignore", "src", "dst"])
    out["dangling-links"] = ([D("src"), {"p": "src/l1", "k": "l", "target": "nowhere"}, {"p": "src/l2", "k": "l", "target": "l2"}], ["-r", "src", "dst"])
    many = [D("src")] + [D("src/d%d" % i) for i in range(10)] + [F("src/d%d/f%d" % (i % 10, i), r.choice([0, 1, 100, 5000]), i + 1) for i in range(300)]
    out["many-files"] = (many, ["--block-size", "4096", "-r", "src", "dst"])
    out["zero-length-only"] = ([D("src")] + [F("src/z%d" % i, 0, i + 1) for i in range(40)], ["-r", "src", "dst"])
    out["multi-block"] = ([D("src"), F("src/m1", 300000, 1), F("src/m2", 1 << 20, 2), F("src/m3", 4097, 3)], ["--block-size", "4096", "-r", "src", "dst"])
    # --fsync with far more block jobs queued than the pool's queue holds (finalisation work competing for the same pool)
    out["many-files-fsync"] = (many, ["--fsync", "--block-size", "4096", "-r", "src", "dst"])
    out["multi-block-fsync"] = ([D("src"), F("src/m1", 1 << 20, 1), F("src/m2", 1 << 20, 2), F("src/m3", (1 << 20) + 4097, 3)], ["--fsync", "--block-size", "4096", "-r", "src", "dst"])
    # a sparse-looking file with runs of preallocated, never written extents (a whole extent-map page of them and more)
    out["prealloc-extent-runs"] = ([D("src"), {"p": "src/pre", "k": "f", "size": (6 << 20) + 5, "seed": 9, "segs": [[2 << 20, 5000], [5 << 20, 70000]], "sync": True,
                                               "falloc": [[i * 16384, 4096] for i in range(40)] + [[(3 << 20) + i * 8192, 4096] for i in range(70)]},
                                    F("src/plain", 100, 10)], ["--block-size", "64KB", "-r", "src", "dst"])
    out["noclobber-collision"] = ([D("src")] + [F("src/f%d" % i, 100, i + 1) for i in range(30)] + [D("dst"), D("dst/src"), F("dst/src/f29", 5, 99)],
                                  ["-n", "-r", "src", "dst"])
    # a destination left by an earlier run in which entries had other kinds (an earlier -L run turned links into directories and
    # files; a file became a directory; ...): whatever is done about the mismatch, it has to end
    older = [D("dst"), D("dst/src"), D("dst/src/ld"), F("dst/src/ld/x", 3, 7), F("dst/src/lf", 4, 8), D("dst/src/plain"), F("dst/src/plain/y", 2, 9),
             D("dst/src/ff"), {"p": "dst/src/ss", "k": "l", "target": "nowhere"}, {"p": "dst/src/sub", "k": "l", "target": "ld"}]
    newer = [D("src"), D("src/real"), F("src/real/x", 3, 7), {"p": "src/ld", "k": "l", "target": "real"}, {"p": "src/lf", "k": "l", "target": "real/x"},
             F("src/plain", 50, 3), {"p": "src/ff", "k": "fifo"}, {"p": "src/ss", "k": "sock"}, D("src/sub"), F("src/sub/z", 9, 4)]
    out["kinds-changed-since-last-copy"] = (newer + older, ["-r", "src", "dst"])
    out["links-onto-directories"] = ([D("src"), D("src/real"), F("src/real/x", 3, 7)] + [{"p": "src/l%d" % i, "k": "l", "target": "real"} for i in range(6)] + [F("src/f%d" % i, 100, i + 1) for i in range(20)]
                                     + [D("dst"), D("dst/src")] + [D("dst/src/l%d" % i) for i in range(6)], ["-r", "src", "dst"])
    # a FIFO where a regular file goes (the earlier version of the tree had a FIFO of that name, and FIFOs are recreated): nobody
    # will ever read from it
    out["fifo-at-file-destination"] = ([D("src"), F("src/x", 100, 1), F("src/y", 5000, 2), D("dst"), D("dst/src"), {"p": "dst/src/x", "k": "fifo"}], ["-r", "src", "dst"])
    out["fifo-as-destination-operand"] = ([F("x", 100, 1), {"p": "pipe", "k": "fifo"}], ["x", "pipe"])
    # ... or links that lead in a circle (the earlier version of the tree had two links pointing at each other)
    out["link-cycle-at-file-destination"] = ([D("src"), F("src/x", 100, 1), F("src/y", 5000, 2), F("src/z", 10, 3), D("dst"), D("dst/src"),
                                              {"p": "dst/src/x", "k": "l", "target": "y"}, {"p": "dst/src/y", "k": "l", "target": "x"}, {"p": "dst/src/z", "k": "l", "target": "z"}],
                                             ["-r", "src", "dst"])
    out["link-cycle-at-file-destination-n"] = ([D("src"), F("src/x", 100, 1), D("dst"), D("dst/src"), {"p": "dst/src/x", "k": "l", "target": "./x"}], ["-n", "-r", "src", "dst"])
    # a `**` pattern over a tree in which symbolic links lead back to their own directory: every combination of the links is a path
    out["glob-doublestar-over-self-links"] = ([D("g"), F("g/a.txt", 10, 1), D("g/sub"), F("g/sub/b.txt", 10, 2), {"p": "g/l1", "k": "l", "target": "."}, {"p": "g/l2", "k": "l", "target": "."},
                                               {"p": "g/sub/l3", "k": "l", "target": ".."}, D("dst")], ["--glob", "g/**/*.txt", "dst"])
    out["glob-doublestar-over-self-links-no-match"] = ([D("g"), F("g/a.txt", 10, 1), D("g/sub"), F("g/sub/b.txt", 10, 2), {"p": "g/l1", "k": "l", "target": "."}, {"p": "g/l2", "k": "l", "target": "."},
                                                        F("other.txt", 5, 3), D("dst")], ["--glob", "g/**/zzz", "other.txt", "dst"])
    # ... the same with links whose names start with a dot (a `*` does not match them, `**` goes through them all the same), and with
    # the loop some levels down, behind a hidden directory
    out["glob-doublestar-over-self-links-hidden"] = ([D("g"), F("g/a.txt", 10, 1), D("g/sub"), F("g/sub/b.txt", 10, 2), {"p": "g/.l1", "k": "l", "target": "."}, {"p": "g/.l2", "k": "l", "target": "."},
                                                      D("dst")], ["--glob", "-r", "g/**", "dst"])
    out["glob-doublestar-over-self-links-hidden-deep"] = ([D("g"), F("g/a.txt", 10, 1), D("g/.cache"), D("g/.cache/x"), F("g/.cache/x/b.txt", 10, 2), {"p": "g/.cache/x/.up1", "k": "l", "target": "../.."},
                                                           {"p": "g/.cache/x/.up2", "k": "l", "target": ".."}, {"p": "g/.cache/.here", "k": "l", "target": "."}, D("dst")], ["--glob", "g/**/*.txt", "dst"])
    # FIFOs whose modes are wider than the file-creation mask allows (0666 under 022, 0644 under 077): whatever is done about the
    # missing bits, a FIFO is never opened
    out["fifo-wider-than-umask-022"] = ([D("src"), F("src/a", 100, 1), {"p": "src/p1", "k": "fifo", "mode": 0o666}, {"p": "src/p2", "k": "fifo", "mode": 0o777}, F("src/z", 10, 2)], ["-r", "src", "dst"])
    out["fifo-wider-than-umask-077"] = ([D("src"), F("src/a", 100, 1), {"p": "src/p1", "k": "fifo", "mode": 0o644}, F("src/z", 10, 2), D("dst"), D("dst/src"), {"p": "dst/src/p1", "k": "fifo", "mode": 0o600}],
                                        ["-r", "src", "dst"])
    out["removed-cwd-relative-destination"] = ([D("src"), F("src/a", 100, 1), D("src/sub"), F("src/sub/b", 10, 2)], ["-r", "@ROOT@/src", "newdir"])
    out["removed-cwd-relative-source"] = ([D("src"), F("src/a", 100, 1)], ["-r", "../src", "@ROOT@/dst"])
    out["removed-cwd-backup"] = ([D("src"), F("src/a", 100, 1), D("dst"), D("dst/src"), F("dst/src/a", 5, 2)], ["--backup", "numbered", "-r", "@ROOT@/src", "@ROOT@/dst"])
    # very many sources on the command line: the checks made before the copy starts must not grow with the square of their number
    out["many-sources-preflight"] = ([D("s"), D("dst")] + [F("s/f%04d" % i, 0, i + 1) for i in range(1200)], ["s/f%04d" % i for i in range(1200)] + ["dst"])
    out["block-device"] = ([D("src")] + [F("src/f%d" % i, 100, i + 1) for i in range(20)] + [{"p": "src/zblk", "k": "blk", "rdev": [7, 99]}], ["-r", "src", "dst"])
    # every worker dies early (failure on the special-file path sends no Error update) while hundreds of operations remain to be queued
    lots = [D("src2")] + [F("src2/f%03d" % i, 10, i + 1) for i in range(400)]
    out["all-workers-dead-queue-long"] = ([D("src1"), {"p": "src1/ff", "k": "fifo"}, D("dst"), D("dst/src1"), D("dst/src1/ff"), F("dst/src1/ff/x", 1, 5)] + lots,
                                          ["-r", "src1", "src2", "dst"])
    out["two-fifos-blocked-queue-long"] = ([D("src1"), {"p": "src1/f1", "k": "fifo"}, {"p": "src1/f2", "k": "fifo"}, D("dst"), D("dst/src1"), D("dst/src1/f1"),
                                            F("dst/src1/f1/x", 1, 5), D("dst/src1/f2"), F("dst/src1/f2/x", 1, 6)] + lots, ["-r", "src1", "src2", "dst"])
    return out


def gen_cases(tier, seed):
    r = random.Random(seed * 49979687 + 7)
    trees = input_trees(r)
    reps = 1 if tier == "quick" else 6
    for name, (spec, args) in sorted(trees.items()):
        for driver in ("parfile", "parblock"):
            for w in ([1, 4, 64, 0] if tier == "quick" else [1, 2, 3, 7, 16, 64, 0, 200]):
                for si, sch in enumerate(SCHEDS):
                    if name.startswith("glob-doublestar-over-self-links") or name == "many-sources-preflight":
                        if not (w == 1 and si < (1 if tier == "quick" else 3)):
                            continue      # (the expansion happens before any thread is started: one schedule tells it all)
                    elif tier == "quick" and (si + w) % 3 and name not in ("gitignore-fifo",):
                        continue
                    for rep in range(reps):
                        p = dict(sch)
                        p["sched_seed"] = r.randrange(1 << 30)
                        if name.startswith("fifo-wider-than-umask-"):
                            p["umask"] = int(name.rsplit("-", 1)[1], 8)
                        if name.startswith("glob-doublestar-over-self-links"):
                            p["max_steps"] = 150000      # (an ordinary expansion of this tree takes a few hundred calls)
                        noise = r.choice([[], [], [], ["--no-progress"], ["-v"], ["-vv"], ["--fsync"], ["--backup", "numbered"], ["--reflink", "never"]])
                        yield {"family": "A", "name": name, "spec": spec, "args": ["--driver", driver, "-w", str(w)] + noise + args, "driver": driver,
                               "workers": w, "plan": p, "fs": "ext4"}
    # family E: a persistent resource shortage (descriptor limit far below what the run needs): xcp must give up, not wait forever
    for name in ("multi-block", "many-files"):
        spec, args = trees[name]
        for driver in ("parfile", "parblock"):
            for nofile, w in ((4, 1), (5, 1), (8, 4), (12, 16), (20, 16), (40, 64)):
                yield {"family": "A", "name": "nofile-%d:%s" % (nofile, name), "spec": spec, "args": ["--driver", driver, "-w", str(w)] + args, "driver": driver,
                       "workers": w, "plan": {"sched": "free", "sched_seed": 1, "nofile": nofile}, "fs": "ext4"}
    # family B: baselines to expand
    variants = [0, 1] if tier == "quick" else [0, 1, 3, 4, 5]
    for v in variants:
        spec, pre, args = c04.mixed_tree(r, v)
        for driver in ("parfile", "parblock"):
            yield {"family": "Bbase", "spec": spec + pre, "args": ["--driver", driver] + args, "driver": driver, "name": "mixed%d" % v, "fs": "ext4",
                   "per_site": 1 if tier == "quick" else 2, "sseed": r.randrange(1 << 30), "max": 400 if tier == "quick" else 100000}
    many, margs = trees["many-files"]
    small = [e for e in many if e["k"] == "d" or int(e["p"].split("f")[-1]) < 60]
    for driver in ("parfile", "parblock"):
        yield {"family": "Bbase", "spec": small + [F("src/big", 400000, 7)], "args": ["--driver", driver, "-w", "3"] + margs, "driver": driver,
               "name": "queue-long", "fs": "ext4", "per_site": 1, "sseed": r.randrange(1 << 30), "max": 500 if tier == "quick" else 100000}
    # family D: the source ends early (it shrank, or it is a pseudo-file whose size over-reports): from the k-th call on, the
    # kernel copy / the userspace reads report end-of-file although bytes were requested
    spec, margs = trees["multi-block"]
    for driver in ("parfile", "parblock"):
        for w in (1, 4):
            for mode in ("cfr-eof", "uspace-eof", "cfr-eof-once", "uspace-write-zero", "cfr-eintr"):
                for k in (1, 3):
                    yield {"family": "D", "name": "early-eof:" + mode, "spec": spec, "args": ["--driver", driver, "-w", str(w)] + margs, "driver": driver,
                           "workers": w, "mode": mode, "k": k, "plan": {"sched": "free", "sched_seed": 1}, "fs": "ext4"}
    # ... or another program truncates the source once while it is being copied (a log file being rotated); dense and sparse sources
    for driver in ("parfile", "parblock"):
        for fs in ("ext4", "tmpfs"):
            for layout in ("sparse", "dense"):
                for k, newlen in ((1, 100000), (2, 0), (2, (4 << 20) + 5)):
                    src = {"p": "src", "k": "d"}
                    f = {"p": "src/log", "k": "f", "size": 12 << 20, "seed": 31, "segs": [[0, 70000], [4 << 20, 70000], [8 << 20, 70000]] if layout == "sparse" else None, "sync": True}
                    yield {"family": "D", "name": "truncated-once:" + layout, "spec": [src, f], "args": ["--driver", driver, "-w", "2", "--block-size", "64KB", "-r", "src", "dst"], "driver": driver,
                           "workers": 2, "mode": "trunc", "k": k, "newlen": newlen, "plan": {"sched": "free", "sched_seed": 1}, "fs": fs}
    # family C: library API
    for c in _api_all_fail(trees, r, tier):
        yield c
    n = 60 if tier == "quick" else 1200
    for i in range(n):
        driver = ["parfile", "parblock"][i % 2]
        upd = ["channel", "noop", "record"][(i // 2) % 3]
        mode = ["live", "after"][(i // 6) % 2]
        name = r.choice(["multi-block", "many-files", "only-specials", "empty-dir", "zero-length-only", "noclobber-collision", "block-device"])
        spec, args = trees[name]
        fault = None
        if r.random() < 0.5:
            fault = {"sys": r.choice(["copy_file_range", "openat", "ftruncate", "mkdir", "getdents64", "fchmod"]), "nth": r.randint(1, 6),
                     "errno": r.choice([5, 28, 13])}
        sch = dict(r.choice(SCHEDS))
        sch["sched_seed"] = r.randrange(1 << 30)
        yield {"family": "C", "name": name, "spec": spec, "driver": driver, "updater": upd, "mode": mode, "workers": r.choice([1, 2, 4, 16]),
               "bs": r.choice([4096, 65536, 2 ** 63]), "flags": (["--no-clobber"] if name == "noclobber-collision" else []), "fault": fault,
               "plan": sch, "fs": "ext4", "paths": [a for a in args if not a.startswith("-") and not a[0].isdigit()]}


def _api_all_fail(trees, r, tier):
    spec, args = trees["many-files"]
    for driver in ("parfile", "parblock"):
        for upd in ("channel", "record", "noop"):
            for w in (1, 2):
                for mode in ("live", "after"):
                    yield {"family": "C", "name": "many-files", "spec": spec, "driver": driver, "updater": upd, "mode": mode, "workers": w, "bs": 4096, "flags": [],
                           "fault": {"sys": r.choice(["openat", "ftruncate", "copy_file_range"]), "nth": 0, "from": 1, "upto": w, "errno": 5, "dst_only": True},
                           "plan": {"sched": "free", "sched_seed": 1}, "fs": "ext4", "paths": ["src", "dst"]}


def expand_case(case):
    if case["family"] != "Bbase":
        return [case]
    with core.Sandbox(case["fs"], "c07") as sb:
        root = sb.root
        tree.materialize(root, case["spec"])
        base = core.run_xcp(sb, case["args"], {"log_mode": "full"})
        if not base.exit0:
            return {"inconc": ["baseline-failed"], "trace": "baseline failed: %s" % base.stderr[-300:]}
        allsites = sites.enumerate_sites(base.events, root)
        r = random.Random(case["sseed"])
        out = []
        for s in allsites:
            rel = dict(s)
            rel["path"] = "@ROOT@" + s["path"][len(root):]
            ens = sites.ERRNOS.get(s["sys"], [])
            for en in r.sample(ens, min(len(ens), case["per_site"])):
                sch = dict(r.choice(SCHEDS[:5]))
                sch["sched_seed"] = r.randrange(1 << 30)
                out.append({"family": "B", "name": case["name"], "spec": case["spec"], "args": case["args"], "driver": case["driver"],
                            "site": rel, "errno": en, "plan": sch, "fs": case["fs"], "base_stops": base.summary["stops"]})
        if len(out) > case["max"]:
            out = r.sample(out, case["max"])
        return out


HANG = {"deadlock": "deadlock", "livelock_steps": "livelock", "livelock_cpu": "livelock", "livelock_repeat": "livelock"}


def judge_termination(run, res, sig_base, what_base):
    if run.verdict in HANG:
        thr = [t for t in run.summary.get("threads", []) if t["state"] != 4]
        detail = "; ".join("%s in %s(%s)" % (t["role"], t["last"], os.path.basename(t["lastpath"])) for t in thr[:8])
        res["viol"].append({"sig": "%s:%s" % (HANG[run.verdict], sig_base),
                            "what": "%s: %s -- %s; threads: %s" % (run.verdict, run.summary.get("detail"), what_base, detail)})
        return False
    if run.verdict not in ("exited",):
        res["inconc"].append("run-" + run.verdict)
        return False
    return True


def run_case(case):
    res = {"evals": [], "viol": [], "inconc": [], "counters": {}}
    with core.Sandbox(case["fs"], "c07") as sb:
        root = sb.root
        tree.materialize(root, case["spec"])
        plan = dict(case["plan"])
        plan.update({"log_mode": "none", "max_steps": plan.get("max_steps", 600000), "cpu_ms": 30000, "wall_ms": 90000, "pct_horizon": 500})
        fam = case["family"]
        if fam == "A" and case["name"].startswith("removed-cwd"):
            # started in a working directory that has been removed since (every relative path is then unresolvable)
            argv = ["sh", "-c", 'mkdir .gone && cd .gone && rmdir ../.gone && exec "$@"', "sh"] + core.xcp_argv([a.replace("@ROOT@", root) for a in case["args"]])
            run = core.run_supervised(sb, argv, plan)
            ok = judge_termination(run, res, "input:%s:%s" % (case["name"], case["driver"]), " ".join(case["args"]))
            key = ["A", case["name"], case["driver"], case["workers"], case["plan"]["sched"]]
        elif fam == "A":
            run = core.run_xcp(sb, case["args"], plan)
            ok = judge_termination(run, res, "input:%s:%s" % (case["name"], case["driver"]), " ".join(case["args"]))
            key = ["A", case["name"], case["driver"], case["workers"], case["plan"]["sched"]]
        elif fam == "D":
            U = root + "/"
            if case["mode"] == "cfr-eof":
                rules = [{"id": "z", "sys": "copy_file_range", "under": U, "action": "retval", "val": 0, "from": case["k"]}]
            elif case["mode"] == "cfr-eof-once":
                rules = [{"id": "z", "sys": "copy_file_range", "under": U, "action": "retval", "val": 0, "nth": case["k"]}]
            elif case["mode"] == "uspace-write-zero":
                rules = [{"id": "r", "sys": "copy_file_range", "under": U, "action": "fault", "errno": 18},
                         {"id": "z", "sys": "write" if case["driver"] == "parfile" else "pwrite64", "under": U + "dst", "action": "retval", "val": 0, "from": case["k"]}]
            elif case["mode"] == "trunc":
                rules = [{"id": "z", "sys": "copy_file_range", "under": U, "nth": case["k"], "action": "trunc", "target": U + "src/log", "val": case["newlen"]}]
            elif case["mode"] == "cfr-eintr":
                rules = [{"id": "z", "sys": "copy_file_range", "under": U, "action": "fault", "errno": 4, "from": case["k"]}]
            else:
                rules = [{"id": "r", "sys": "copy_file_range", "under": U, "action": "fault", "errno": 18},
                         {"id": "z", "sys": "read" if case["driver"] == "parfile" else "pread64", "under": U, "action": "retval", "val": 0, "from": case["k"]}]
            plan["rules"] = rules
            plan["max_steps"] = 300000
            run = core.run_xcp(sb, case["args"], plan)
            ok = judge_termination(run, res, "%s:%s" % (case["name"], case["driver"]), "%s from call %d; %s" % (case["mode"], case["k"], " ".join(case["args"])))
            key = ["D", case["name"], case["driver"], case["workers"], case["k"], case["fs"], case.get("newlen")]
        elif fam == "B":
            s = dict(case["site"])
            s["path"] = s["path"].replace("@ROOT@", root)
            plan["rules"] = [sites.site_rule(s, "f", action="fault", errno=case["errno"])]
            plan["max_steps"] = case["base_stops"] * 40 + 100000
            run = core.run_xcp(sb, case["args"], plan)
            ok = judge_termination(run, res, "fault:%s:%s:%s" % (sites.site_sig(case["site"], "@ROOT@"), case["errno"], case["driver"]),
                                   "%s#%d failed with errno %d; %s" % (case["site"]["sys"], case["site"]["nth"], case["errno"], " ".join(case["args"])))
            if run.rule("f")["applied"] == 0:
                res["counters"]["site-missed"] = 1
                return res
            key = ["B", case["name"], case["driver"], sites.site_sig(case["site"], "@ROOT@"), case["errno"], case["plan"]["sched"]]
        else:
            argv = [PROBE_BIN["probe_xcp"], case["driver"], case["updater"], case["mode"], str(case["workers"]), str(case["bs"])] + case["flags"] + ["--"] + case["paths"]
            plan["driver"] = case["driver"]
            if case["fault"]:
                rule = {"id": "f", "sys": case["fault"]["sys"], "under": root + ("/dst/" if case["fault"].get("dst_only") else "/"), "nth": case["fault"]["nth"],
                        "action": "fault", "errno": case["fault"]["errno"]}
                for k in ("from", "upto"):
                    if k in case["fault"]:
                        rule[k] = case["fault"][k]
                plan["rules"] = [rule]
            run = core.run_supervised(sb, argv, plan)
            sigb = "api:%s:%s:%s:%s" % (case["driver"], case["updater"], case["mode"], case["name"])
            ok = judge_termination(run, res, sigb, " ".join(argv[1:]))
            if ok:
                last = None
                for line in run.stdout.splitlines():
                    try:
                        j = json.loads(line)
                    except ValueError:
                        continue
                    if j.get("t") == "result":
                        last = j
                if last is None:
                    if run.signal or run.status not in (0, 1):
                        res["counters"]["probe-abnormal-exit"] = 1
                    res["inconc"].append("probe-no-result")
                    return res
                if not last["disconnected"]:
                    res["viol"].append({"sig": "channel-not-closed:" + sigb, "what": "copy() returned (%s) but the update channel is still connected; %s" % (last, " ".join(argv[1:]))})
                res["counters"]["api-copy-ok" if last["ok"] else "api-copy-err"] = 1
            key = ["C", case["name"], case["driver"], case["updater"], case["mode"], bool(case["fault"]), case["plan"]["sched"]]
        if ok:
            res["evals"].append({"key": key, "sample": {"family": fam, "name": case["name"], "driver": case["driver"], "exit": run.status,
                                                        "plan": case["plan"], "stops": run.summary.get("stops"),
                                                        "fault": case.get("site") or case.get("fault")}})
            res["counters"]["terminated:" + fam] = 1
            res["counters"]["exit0" if run.exit0 else "nonzero"] = 1
            res["counters"]["max-stops"] = 0
    return res
