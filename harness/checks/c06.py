"""C06 -- outcome independent of thread interleaving, worker count and driver."""
import copy
import json
import os
import random

from .. import core, tree, model, monitors
from ..core import b, u
from .c02 import older_version

PROP = "C06"
LEVEL = "exploration"
RULE = ("for each case (trees mixing many small files, multi-block files, nested directories, links; fresh, populated or "
        "colliding destinations) the same invocation is executed under both drivers x workers {1,2,4,16,64} x supervisor "
        "schedules (free, pct d=1..3, walker-first, workers-first, main-late, lifo, jitter) that hold threads at system-call "
        "boundaries; oracle: (i) within a case every run has the same exit class and all exit-0 runs have identical destination "
        "snapshots (paths, kinds, bytes, link text, modes, file mtimes); (ii) trace monitors on every log: no creating call under "
        "the destination fails with ENOENT (directory exists before its children), no metadata call on a destination inode begins "
        "before every data write on it has returned. distinct_nontrivial = distinct (case, driver, workers, interleaving "
        "signature) where the signature hashes the order of file-system-mutating calls by role and object")
ASSUMPTIONS = ["holding a thread at a system-call entry cannot create an interleaving the program cannot have (threads are pre-emptible everywhere)",
               "directory and link timestamps are 'now' by design and are not compared"]

SCHEDS = [
    {"sched": "free"},
    {"sched": "pct", "sched_d": 1}, {"sched": "pct", "sched_d": 2}, {"sched": "pct", "sched_d": 3},
    {"sched": "role", "role_order": "walker,dispatcher,copy,main,worker"},
    {"sched": "role", "role_order": "worker,dispatcher,walker,copy,main"},
    {"sched": "role", "role_order": "worker,walker,dispatcher,copy,main"},
    {"sched": "role", "role_order": "dispatcher,worker,walker,copy,main"},
    {"sched": "lifo"},
    {"sched": "jitter", "jitter": [300, 1500]},
]


def F(p, size, seed, **kw):
    e = {"p": p, "k": "f", "size": size, "seed": seed, "segs": None}
    e.update(kw)
    return e


def base_cases(r, tier):
    out = []
    # T1: many small files and links in nested directories
    spec = [{"p": "src", "k": "d"}] + tree.gen_tree(r, depth=3, fanout=5, kinds=("f", "f", "f", "d", "l"), prefix="src", nonutf8=True,
                                                    max_entries=45, modes=True, mtimes=True, sizes=[0, 1, 50, 3000, 5000])
    dirs_ = [e["p"] for e in spec if e["k"] == "d"]
    for k in range(6):
        spec.append({"p": r.choice(dirs_) + "/node%d" % k, "k": r.choice(["fifo", "sock"]), "mode": r.choice([0o644, 0o600, 0o666])})
    spec.sort(key=lambda e: (e["p"].count("/"), e["p"]))      # nodes interleave with the directories around them
    out.append({"name": "many-small", "spec": spec, "pre": [], "bs": "4096", "expect_fail": False})
    # T2: multi-block files
    spec = [{"p": "src", "k": "d"}, F("src/m1", 5 * 4096 + 17, 1, mode=0o640, mtime_ns=1_111_111_111_000_000_001),
            F("src/m2", 40 * 4096, 2, mode=0o755, mtime_ns=1_222_222_222_000_000_002, xattrs={"user.t": "x"}),
            {"p": "src/d1", "k": "d"}, {"p": "src/d1/d2", "k": "d"}, F("src/d1/d2/m3", 12 * 4096 + 1, 3, mode=0o444, mtime_ns=1_333_333_333_123_456_789),
            F("src/d1/tiny", 3, 4), {"p": "src/d1/l", "k": "l", "target": "tiny"},
            {"p": "src/sp", "k": "f", "size": 3 << 20, "seed": 5, "segs": [[0, 20000], [2 << 20, 30000]], "sync": True, "mode": 0o600},
            # sparse, and its data runs up to an end of file that is not block-aligned (extent maps report whole blocks)
            {"p": "src/sp-unaligned-end", "k": "f", "size": (3 << 20) + 123, "seed": 6, "segs": [[4096, 5000], [3 << 20, 123]], "sync": True, "mode": 0o644}]
    out.append({"name": "multi-block", "spec": spec, "pre": [], "bs": "4096", "expect_fail": False})
    # T3: overwrite of an older version
    spec3 = [{"p": "src", "k": "d"}] + tree.gen_tree(r, depth=2, fanout=4, kinds=("f", "f", "d"), prefix="src", nonutf8=False,
                                                     max_entries=16, modes=True, mtimes=True, sizes=[0, 100, 9000, 70000])
    pre3 = [{"p": "dst", "k": "d"}] + older_version(r, spec3, "src", "dst/src")
    out.append({"name": "overwrite", "spec": spec3, "pre": pre3, "bs": "8192", "expect_fail": False})
    # T4: a directory sits where a file must go, late in the tree: every run must fail
    spec4 = copy.deepcopy(spec)
    pre4 = [{"p": "dst", "k": "d"}, {"p": "dst/src", "k": "d"}, {"p": "dst/src/d1", "k": "d"}, {"p": "dst/src/d1/tiny", "k": "d"}]
    out.append({"name": "collision", "spec": spec4, "pre": pre4, "bs": "4096", "expect_fail": True})
    out.append({"name": "multi-block-no-cfr", "spec": copy.deepcopy(spec), "pre": [], "bs": "4096", "expect_fail": False,
                "rules": [{"id": "r", "sys": "copy_file_range", "under": "@ROOT@", "action": "fault", "errno": 18}]})
    xspec = copy.deepcopy(spec)
    for e in xspec:
        if e["k"] == "f":
            e["xattrs"] = {"user.tag": "t-" + os.path.basename(e["p"])}
    out.append({"name": "one-xattr-refused", "spec": xspec, "pre": [], "bs": "4096", "expect_fail": False,
                "rules": [{"id": "x", "sys": "fsetxattr", "suffix": "/dst/m2", "action": "fault", "errno": 28}]})
    out.append({"name": "multi-block-options", "spec": copy.deepcopy(spec), "pre": [], "bs": "4096", "expect_fail": False, "opts": ["--no-perms", "--fsync", "--reflink", "never"]})
    # the largest block size there is (what --no-progress selects; the library's default): one "block" per file, for both drivers
    out.append({"name": "multi-block-no-progress", "spec": copy.deepcopy(spec), "pre": [], "bs": "4096", "expect_fail": False, "opts": ["--no-progress"], "per": 24 if tier == "quick" else 120})
    # a sparse-looking file with data freshly written (not yet flushed) into a preallocated range: the extent map calls that range
    # 'unwritten' until writeback, a data/hole search does not -- the two drivers look at different things and must agree
    spec_pa = [{"p": "src", "k": "d"}, {"p": "src/pa", "k": "f", "size": 8 << 20, "seed": 777, "segs": [[1 << 20, 262144], [(1 << 20) + 600000, 4096]], "falloc": [[1 << 20, 1 << 20]], "sync": False, "mode": 0o644},
               {"p": "src/pb", "k": "f", "size": (3 << 20) + 5, "seed": 779, "segs": [[0, 100000]], "falloc": [[0, 1 << 20]], "sync": False, "mode": 0o644}, F("src/other", 5000, 778, mode=0o644)]
    out.append({"name": "preallocated-range-written-unsynced", "spec": spec_pa, "pre": [], "bs": "65536", "expect_fail": False, "per": 12 if tier == "quick" else 60, "plain": 4})
    # T8: numbered backups of files whose names are prefixes of one another (rotated logs): every overwrite renames a neighbour
    names = ["log", "log.1", "log.1.gz", "log.2", "README", "README.md", "f1", "f10", "f100", "f1.~1~x"]
    spec8 = [{"p": "src", "k": "d"}] + [F("src/" + n, r.choice([0, 100, 5000, 70000]), 50 + i, mode=0o644) for i, n in enumerate(names)]
    pre8 = [{"p": "dst", "k": "d"}, {"p": "dst/src", "k": "d"}] + [F("dst/src/" + n, r.choice([1, 300, 9000]), 80 + i, mode=0o600) for i, n in enumerate(names)]
    pre8 += [F("dst/src/log.~1~", 7, 120), F("dst/src/f1.~2~", 8, 121), F("dst/src/README.~1~", 9, 122)]
    # (many runs outside the supervisor: the overlaps that matter here -- a neighbour renamed between the listing of the directory and a
    # look at the entry -- are narrower than a system call)
    out.append({"name": "backup-prefix-names", "spec": spec8, "pre": pre8, "bs": "4096", "expect_fail": False, "opts": ["--backup", "numbered"], "plain": 80 if tier == "quick" else 300})
    # ... and with the overlap arranged: whatever a worker wants to know about `log.1` (of which it is not the copier: it is working
    # on `log` and has the directory listed) it learns only after the sibling's copier has renamed `log.1` away
    out.append({"name": "backup-prefix-names-gated", "spec": copy.deepcopy(spec8), "pre": copy.deepcopy(pre8), "bs": "4096", "expect_fail": False, "opts": ["--backup", "numbered"], "per": 16 if tier == "quick" else 60,
                "scheds": [({"sched": "free"}, 2), ({"sched": "free"}, 4), ({"sched": "jitter", "jitter": [100, 400]}, 4), ({"sched": "free"}, 8)],
                "rules": [{"id": "n1", "sys": "rename", "suffix": "/dst/src/log.1", "action": "note", "when": "exit"},
                          {"id": "g1", "sys": "statx", "suffix": "/dst/src/log.1", "role": "worker", "action": "hold", "until": "n1", "maxwait_ms": 150}]})
    out.append({"name": "backup-prefix-names-auto", "spec": copy.deepcopy(spec8), "pre": copy.deepcopy(pre8), "bs": "4096", "expect_fail": False, "opts": ["--backup", "auto"], "plain": 40 if tier == "quick" else 150})
    # T11: a second copy over a destination that already holds the tree's symbolic links (several in one directory, stale targets):
    # refused or replaced, but the same way under every schedule, worker count and driver
    spec11 = [{"p": "src", "k": "d"}, F("src/a", 100, 301), F("src/b", 5000, 302)] + [{"p": "src/l%d" % k, "k": "l", "target": r.choice(["a", "b", "nowhere"])} for k in range(6)]
    pre11 = [{"p": "dst", "k": "d"}, {"p": "dst/src", "k": "d"}, F("dst/src/a", 7, 303)] + [{"p": "dst/src/l%d" % k, "k": "l", "target": "stale%d" % k} for k in range(6)]
    out.append({"name": "relink-existing-links", "spec": spec11, "pre": pre11, "bs": "4096", "expect_fail": False, "per": 30 if tier == "quick" else 150})
    # T12: two names of the destination are one file (hard links left by an earlier `cp -l`, or a link to a sibling): two sources
    # written into it at once would give a schedule-dependent mixture; refused or not, every schedule must end the same way
    spec12 = [{"p": "src", "k": "d"}, F("src/a", 8192 * 6 + 5, 401, mode=0o644), F("src/b", 8192 * 6 + 5, 402, mode=0o644), F("src/c", 8192 * 4, 403, mode=0o644), F("src/e", 8192 * 4, 404, mode=0o644)]
    pre12 = [{"p": "dst", "k": "d"}, {"p": "dst/src", "k": "d"}, F("dst/src/a", 10, 405), {"p": "dst/src/b", "k": "hard", "target": "dst/src/a"}]
    out.append({"name": "hardlinked-destination-names", "spec": spec12, "pre": pre12, "bs": "4096", "expect_fail": False, "per": 24 if tier == "quick" else 120})
    pre13 = [{"p": "dst", "k": "d"}, {"p": "dst/src", "k": "d"}, F("dst/src/e", 10, 406), {"p": "dst/src/c", "k": "l", "target": "e"}]
    out.append({"name": "linked-destination-names", "spec": copy.deepcopy(spec12), "pre": pre13, "bs": "4096", "expect_fail": False, "per": 24 if tier == "quick" else 120})
    # T13: files with several names inside the source (hard links), next to one another in walk order: however the second name is
    # produced, it must not depend on whether another worker has finished with the first
    spec14 = [{"p": "src", "k": "d"}, {"p": "src/objects", "k": "d"}]
    for k in range(8):
        spec14.append(F("src/objects/blob%d" % k, r.choice([1, 5000, 8192 * 3 + 7]), 500 + k, mode=0o644))
        spec14.append({"p": "src/objects/alias%d" % k, "k": "hard", "target": "src/objects/blob%d" % k})
        spec14.append({"p": "src/also%d" % k, "k": "hard", "target": "src/objects/blob%d" % k})
    out.append({"name": "hardlinked-sources", "spec": spec14, "pre": [], "bs": "4096", "expect_fail": False, "per": 40 if tier == "quick" else 150})
    # T14: with backups, a source named like the backup that a sibling's old version is about to receive (a tree that was itself the
    # destination of earlier --backup runs): refused or not, the outcome may not depend on who gets to the name first
    spec15 = [{"p": "src", "k": "d"}] + [F("src/" + n, 5000 + 11 * i, 600 + i, mode=0o644) for i, n in enumerate(["NAME", "NAME.~1~", "other", "other.~2~", "zz"])]
    pre15 = [{"p": "dst", "k": "d"}, {"p": "dst/src", "k": "d"}, F("dst/src/NAME", 70, 610), F("dst/src/other", 80, 611), F("dst/src/other.~1~", 9, 612)]
    out.append({"name": "backup-named-siblings", "spec": spec15, "pre": pre15, "bs": "4096", "expect_fail": False, "opts": ["--backup", "numbered"], "per": 30 if tier == "quick" else 150})
    out.append({"name": "backup-named-siblings-auto", "spec": copy.deepcopy(spec15), "pre": copy.deepcopy(pre15), "bs": "4096", "expect_fail": False, "opts": ["--backup", "auto"], "per": 30 if tier == "quick" else 150})
    # ... the pair alone, the file having no backup yet (in auto mode whether one is due is itself something a sibling can change),
    # in both walk orders (`A` sorts before `NAME`, `z` after)
    for tag, extra in (("", "zz"), ("-reversed", "A")):
        sp = [{"p": "src", "k": "d"}] + [F("src/" + n, 5000 + 11 * i, 620 + i, mode=0o644) for i, n in enumerate(["NAME", "NAME.~1~", extra])]
        if tag:
            sp = [{"p": "src", "k": "d"}, {"p": "src/NAME.~1~", "k": "f", "size": 7000, "seed": 631, "segs": None, "mode": 0o644}, F("src/NAME", 5000, 632, mode=0o644), F("src/A", 10, 633, mode=0o644)]
        pr = [{"p": "dst", "k": "d"}, {"p": "dst/src", "k": "d"}, F("dst/src/NAME", 70, 640)]
        for mode in ("auto", "numbered"):
            out.append({"name": "backup-named-pair-%s%s" % (mode, tag), "spec": copy.deepcopy(sp), "pre": copy.deepcopy(pr), "bs": "4096", "expect_fail": False, "opts": ["--backup", mode],
                        "per": 24 if tier == "quick" else 120})
    # ... two links in the destination that lead to one and the same file elsewhere (a file with a single name: only following the
    # links tells), and a link to a sibling whose text is absolute while the destination is named relatively
    pre18 = [{"p": "shared", "k": "d"}, F("shared/log", 10, 410), {"p": "dst", "k": "d"}, {"p": "dst/src", "k": "d"},
             {"p": "dst/src/a", "k": "l", "target": "../../shared/log"}, {"p": "dst/src/b", "k": "l", "target": "../../shared/log"}]
    out.append({"name": "two-links-to-one-file-elsewhere", "spec": copy.deepcopy(spec12), "pre": pre18, "bs": "4096", "expect_fail": False, "per": 24 if tier == "quick" else 120})
    pre19 = [{"p": "dst", "k": "d"}, {"p": "dst/src", "k": "d"}, F("dst/src/e", 10, 411), {"p": "dst/src/c", "k": "l", "target": "@ROOT@/dst/src/e"}]
    out.append({"name": "absolute-link-to-sibling-destination", "spec": copy.deepcopy(spec12), "pre": pre19, "bs": "4096", "expect_fail": False, "per": 24 if tier == "quick" else 120})
    pre20 = [{"p": "dst", "k": "d"}, {"p": "dst/src", "k": "d"}, {"p": "dst/src/b", "k": "l", "target": "c"}, {"p": "dst/src/c", "k": "l", "target": "a"}]
    out.append({"name": "dangling-link-chain-to-sibling-destination", "spec": copy.deepcopy(spec12), "pre": pre20, "bs": "4096", "expect_fail": False, "per": 24 if tier == "quick" else 120})
    # ... a chain whose middle link is nobody's destination: it ends at the (absent) destination of a source copied earlier, or later
    pre24 = [{"p": "dst", "k": "d"}, {"p": "dst/src", "k": "d"}, {"p": "dst/src/e", "k": "l", "target": "mid"}, {"p": "dst/src/mid", "k": "l", "target": "a"}]
    out.append({"name": "dangling-link-chain-through-bystander-to-earlier-destination", "spec": copy.deepcopy(spec12), "pre": pre24, "bs": "4096", "expect_fail": False, "per": 24 if tier == "quick" else 120})
    pre25 = [{"p": "dst", "k": "d"}, {"p": "dst/src", "k": "d"}, {"p": "dst/src/a", "k": "l", "target": "mid1"}, {"p": "dst/src/mid1", "k": "l", "target": "./mid2"},
             {"p": "dst/src/mid2", "k": "l", "target": "@ROOT@/dst/src/e"}]
    out.append({"name": "dangling-link-chain-through-bystanders-to-later-destination", "spec": copy.deepcopy(spec12), "pre": pre25, "bs": "4096", "expect_fail": False, "per": 24 if tier == "quick" else 120})
    pre26 = [{"p": "dst", "k": "d"}, {"p": "dst/a", "k": "l", "target": "mid"}, {"p": "dst/mid", "k": "l", "target": "b"}]
    out.append({"name": "dangling-link-chain-target-queued-first", "spec": copy.deepcopy(spec12), "pre": pre26, "bs": "4096", "expect_fail": False, "per": 24 if tier == "quick" else 120,
                "tail": ["src/b", "src/a", "dst"]})
    pre21 = [{"p": "dst", "k": "d"}, {"p": "dst/src", "k": "d"}, {"p": "dst/src/a", "k": "l", "target": "@ROOT@/dst/src/b"}]
    out.append({"name": "absolute-dangling-link-to-sibling-destination", "spec": copy.deepcopy(spec12), "pre": pre21, "bs": "4096", "expect_fail": False, "per": 24 if tier == "quick" else 120})
    pre22 = [{"p": "dst", "k": "d"}, {"p": "dst/src", "k": "d"}, {"p": "dst/src/e", "k": "l", "target": "@ROOT@/dst/src/a"}]
    out.append({"name": "absolute-dangling-link-to-earlier-sibling-destination", "spec": copy.deepcopy(spec12), "pre": pre22, "bs": "4096", "expect_fail": False, "per": 24 if tier == "quick" else 120})
    # (sources named one by one, so that the link's target is queued just before the link itself)
    pre23 = [{"p": "dst", "k": "d"}, {"p": "dst/a", "k": "l", "target": "@ROOT@/dst/b"}]
    out.append({"name": "absolute-dangling-link-target-queued-first", "spec": copy.deepcopy(spec12), "pre": pre23, "bs": "4096", "expect_fail": False, "per": 24 if tier == "quick" else 120,
                "tail": ["src/b", "src/a", "dst"]})
    # T15: ... and the same through a link whose target does not exist yet (it is about to be created by this very run), and with
    # backups (where the rename of one name races with the look at the other)
    pre16 = [{"p": "dst", "k": "d"}, {"p": "dst/src", "k": "d"}, {"p": "dst/src/a", "k": "l", "target": "b"}, {"p": "dst/src/c", "k": "l", "target": "./e"}]
    out.append({"name": "dangling-link-to-sibling-destination", "spec": copy.deepcopy(spec12), "pre": pre16, "bs": "4096", "expect_fail": False, "per": 30 if tier == "quick" else 150})
    pre17 = copy.deepcopy(pre13) + [F("dst/src/e.~1~", 7, 407)]
    out.append({"name": "linked-destination-names-backup-auto", "spec": copy.deepcopy(spec12), "pre": pre17, "bs": "4096", "expect_fail": False, "opts": ["--backup", "auto"], "per": 30 if tier == "quick" else 150})
    out.append({"name": "linked-destination-names-backup-numbered", "spec": copy.deepcopy(spec12), "pre": copy.deepcopy(pre13), "bs": "4096", "expect_fail": False, "opts": ["--backup", "numbered"], "per": 30 if tier == "quick" else 150})
    # T10: the same source named twice under -n: whether a worker has already created the copy when the walker meets the second
    # mention must not decide the exit status
    out.append({"name": "same-source-twice-noclobber", "spec": copy.deepcopy(spec), "pre": [{"p": "dst", "k": "d"}], "bs": "4096", "expect_fail": False, "opts": ["-n"],
                "tail": ["src/m1", "src/d1/tiny", "src/m1", "src/d1/tiny", "src/m2", "dst"], "per": 24 if tier == "quick" else 120})
    # T9: more one-block files than half the customary descriptor limit, under that limit: whether the workers keep up with the
    # dispatcher must not decide the outcome
    spec9 = [{"p": "src", "k": "d"}] + [{"p": "src/d%d" % k, "k": "d"} for k in range(4)] + [F("src/d%d/f%03d" % (i % 4, i), r.choice([1, 100, 4000]), 200 + i) for i in range(900)]
    out.append({"name": "many-files-nofile-1024", "spec": spec9, "pre": [], "bs": "4096", "expect_fail": False, "nofile": 1024, "per": 10 if tier == "quick" else 40,
                "scheds": [({"sched": "role", "role_order": "dispatcher,walker,copy,main,worker"}, 1), ({"sched": "free"}, 16), ({"sched": "role", "role_order": "dispatcher,walker,copy,main,worker"}, 2),
                           ({"sched": "free"}, 1), ({"sched": "role", "role_order": "dispatcher,walker,copy,main,worker"}, 4), ({"sched": "lifo"}, 2), ({"sched": "jitter", "jitter": [300, 1500]}, 4),
                           ({"sched": "role", "role_order": "walker,dispatcher,copy,main,worker"}, 2), ({"sched": "pct", "sched_d": 3}, 4), ({"sched": "free"}, 64)]})
    if tier == "thorough":
        for k in range(4):
            sp = [{"p": "src", "k": "d"}] + tree.gen_tree(r, depth=3, fanout=4, kinds=("f", "f", "d", "l"), prefix="src", nonutf8=True,
                                                          max_entries=30, modes=True, mtimes=True, sizes=[0, 1, 4096, 8192 * 3 + 1, 100000])
            out.append({"name": "rand%d" % k, "spec": sp, "pre": [], "bs": r.choice(["4096", "8192", "65536"]), "expect_fail": False})
    return out


def gen_cases(tier, seed):
    r = random.Random(seed * 32452843 + 6)
    per = 60 if tier == "quick" else 250
    gid = 0
    for bc in base_cases(r, tier):
        for driver in ("parfile", "parblock"):
            for k in range(bc.get("per", per)):
                sch = dict(SCHEDS[k % len(SCHEDS)]) if k < len(SCHEDS) else dict(r.choice(SCHEDS))
                sch["sched_seed"] = r.randrange(1 << 30)
                w = [1, 2, 4, 16, 64][k % 5] if k < 5 else r.choice([1, 2, 3, 4, 8, 16, 64])
                if bc.get("scheds"):
                    sch, w = bc["scheds"][k % len(bc["scheds"])]
                    sch = dict(sch, sched_seed=r.randrange(1 << 30))
                yield {"group": gid, "name": bc["name"], "spec": bc["spec"], "pre": bc["pre"], "driver": driver, "workers": w,
                       "args": ["--driver", driver, "-w", str(w), "--block-size", bc["bs"]] + bc.get("opts", []) + bc.get("tail", ["-r", "src", "dst"]), "plan": sch,
                       "expect_fail": bc["expect_fail"], "fs": "ext4", "rules": bc.get("rules", []), "nofile": bc.get("nofile")}
            # ... and a few runs outside the supervisor: tracing serialises the threads at every system call, real parallelism finds
            # other overlaps (no event monitors there, only exit status and final state)
            if not bc.get("rules") and not bc.get("nofile"):
                for k in range(bc.get("plain", (10 if tier == "quick" else 60) if driver == "parfile" else (6 if tier == "quick" else 40))):
                    w = [8, 4, 16, 2, 32][k % 5]
                    yield {"group": gid, "name": bc["name"], "spec": bc["spec"], "pre": bc["pre"], "driver": driver, "workers": w, "plain": True,
                           "args": ["--driver", driver, "-w", str(w), "--block-size", bc["bs"]] + bc.get("opts", []) + bc.get("tail", ["-r", "src", "dst"]), "plan": {"sched": "unsupervised"},
                           "expect_fail": bc["expect_fail"], "fs": "ext4", "rules": [], "nofile": None}
        gid += 1


def norm_snapshot(post, prefix="dst"):
    out = {}
    for p, rec in post.items():
        if not (p == prefix or p.startswith(prefix + "/")):
            continue
        t = [rec["k"], rec.get("mode")]
        if rec["k"] == "f":
            t += [rec["size"], rec.get("sha"), rec["mtime_ns"], sorted(rec.get("xattrs", {}).items())]
        elif rec["k"] == "l":
            t = [rec["k"], rec.get("link")]
        out[p] = t
    return out


def content_oracle(case, post, run, res):
    """All schedules agreeing is not enough if they agree on something wrong: on exit 0 every regular file of `src` that has a
    regular file as its counterpart must have its bytes there (the sources are part of the same snapshot)."""
    if not run.exit0 or case["args"][-3:] != ["-r", "src", "dst"]:
        return
    pref = "dst/src/" if any(e["p"] == "dst" for e in case["pre"]) else "dst/"
    for p_, rec in post.items():
        if p_.startswith("src/") and rec["k"] == "f":
            d = post.get(pref + p_[4:])
            if d is not None and d["k"] == "f" and (d.get("sha") != rec.get("sha") or d["size"] != rec["size"]):
                res["viol"].append({"sig": "%s:exit0-wrong-content:%s" % (case["driver"], case["name"]),
                                    "what": "exit 0 but %s does not hold the bytes of %s (size %d vs %d) [%s:%s, workers %d, sched %s]"
                                            % (pref + p_[4:], p_, d["size"], rec["size"], case["driver"], case["name"], case["workers"], case["plan"].get("sched"))})
                return


def run_case(case):
    res = {"evals": [], "viol": [], "inconc": [], "counters": {}, "data": None}
    with core.Sandbox(case["fs"], "c06") as sb:
        root = sb.root
        tree.materialize(root, tree.fix_mtimes(case["spec"]))
        tree.materialize(root, tree.fix_mtimes([dict(e, target=e["target"].replace("@ROOT@", root)) if e.get("k") == "l" else e for e in case["pre"]], 1_500_000_000_000_000_000))
        if case.get("plain"):
            old_umask = os.umask(0o027)
            try:
                run = core.run_plain(core.xcp_argv(case["args"]), root, timeout=300)
            finally:
                os.umask(old_umask)
            if run.verdict != "exited":
                res["inconc"].append("run-" + run.verdict)
                return res
            post = tree.snapshot(root)
            content_oracle(case, post, run, res)
            res["counters"]["runs"] = 1
            res["counters"]["sched:unsupervised"] = 1
            res["data"] = {"group": case["group"], "exit0": run.exit0, "snap": norm_snapshot(post) if run.exit0 else None, "sig": "unsupervised",
                           "driver": case["driver"], "workers": case["workers"], "sched": case["plan"], "name": case["name"],
                           "expect_fail": case["expect_fail"], "stderr": run.stderr[-300:]}
            res["evals"].append({"key": None})
            return res
        plan = dict(case["plan"])
        if case.get("nofile"):
            plan["nofile"] = case["nofile"]
        plan.update({"log_mode": "full", "pct_horizon": 600, "sched_cap_us": 3000, "umask": 0o027,
                     "rules": [dict(x, under=root + "/") if "suffix" not in x else dict(x) for x in case.get("rules", [])]})
        run = core.run_xcp(sb, case["args"], plan)
        if run.verdict != "exited":
            res["inconc"].append("run-" + run.verdict)
            return res
        post = tree.snapshot(root)
        content_oracle(case, post, run, res)
        ev = run.events
        sig, nmut = monitors.interleaving_signature(ev, root)
        tag = "%s:%s" % (case["driver"], case["name"])
        v1, o1 = monitors.no_enoent_creation(ev, root)
        v2, o2 = monitors.metadata_after_last_byte(ev, root)
        for frag, msg in v1 + v2:
            res["viol"].append({"sig": "%s:%s" % (case["driver"], frag), "what": "%s [%s, workers %d, sched %s]" % (msg, tag, case["workers"], case["plan"])})
        wt = monitors.writer_threads(ev, root)
        res["counters"]["runs"] = 1
        res["counters"]["sched:" + case["plan"]["sched"]] = 1
        res["counters"]["events"] = len(ev)
        res["counters"]["holds"] = run.summary.get("holds", 0)
        res["counters"]["files-written-by->1-thread"] = sum(1 for s in wt.values() if len(s) > 1)
        res["counters"]["monitor:creations-checked"] = o1["creations"]
        res["counters"]["monitor:meta-calls-checked"] = o2["meta_calls"]
        res["data"] = {"group": case["group"], "exit0": run.exit0, "snap": norm_snapshot(post) if run.exit0 else None, "sig": sig,
                       "driver": case["driver"], "workers": case["workers"], "sched": case["plan"], "name": case["name"],
                       "expect_fail": case["expect_fail"], "stderr": run.stderr[-300:]}
        res["evals"].append({"key": [case["group"], case["driver"], case["workers"], sig] if nmut else None})
    return res


def finalize(rep, cases, results, tier, seed):
    groups = {}
    for c, r in zip(cases, results):
        d = r.get("data")
        if d:
            groups.setdefault(d["group"], []).append(d)
    sigs_total = set()
    for gid, runs in sorted(groups.items()):
        name = runs[0]["name"]
        sigs = {(d["driver"], d["sig"]) for d in runs}
        sigs_total |= {(gid,) + s for s in sigs}
        classes = {d["exit0"] for d in runs}
        if len(classes) > 1:
            ok = [d for d in runs if d["exit0"]][0]
            ko = [d for d in runs if not d["exit0"]][0]
            kind = "driver" if {d["driver"] for d in runs if d["exit0"]} != {d["driver"] for d in runs if not d["exit0"]} and \
                len({d["driver"] for d in runs if d["exit0"]}) == 1 and len({d["driver"] for d in runs if not d["exit0"]}) == 1 else "schedule"
            rep.violation("exit-class-differs:%s:%s" % (kind, name),
                          "case %s: exit 0 with %s/w%d/%s but non-zero with %s/w%d/%s (%s)" % (
                              name, ok["driver"], ok["workers"], ok["sched"], ko["driver"], ko["workers"], ko["sched"], ko["stderr"]),
                          {"cases": [c for c in cases if c["group"] == gid]})
        if runs[0]["expect_fail"] and True in classes:
            rep.violation("expected-failure-exit0:%s" % name, "case %s must fail (directory where a file goes) but a run exited 0" % name,
                          {"cases": [c for c in cases if c["group"] == gid]})
        ok = [d for d in runs if d["exit0"]]
        if ok:
            ref = ok[0]
            for d in ok[1:]:
                if d["snap"] != ref["snap"]:
                    diffs = [p for p in set(ref["snap"]) | set(d["snap"]) if ref["snap"].get(p) != d["snap"].get(p)]
                    p0 = sorted(diffs)[0]
                    kind = "driver" if d["driver"] != ref["driver"] else "schedule"
                    rep.violation("dest-differs:%s:%s" % (kind, name),
                                  "case %s: destinations differ at %r: %s/w%d/%s gives %s, %s/w%d/%s gives %s" % (
                                      name, p0, ref["driver"], ref["workers"], ref["sched"]["sched"], ref["snap"].get(p0),
                                      d["driver"], d["workers"], d["sched"]["sched"], d["snap"].get(p0)),
                                  {"cases": [c for c in cases if c["group"] == gid]})
                    break
        rep.count("groups-compared")
        rep.count("distinct-interleavings:%s" % name, len(sigs))
    rep.extra["distinct_interleaving_signatures"] = len(sigs_total)
    rep.extra["groups"] = len(groups)
    if rep.samples is not None and groups:
        g = groups[sorted(groups)[0]]
        rep.samples.append({"group": g[0]["name"], "runs": [{"driver": d["driver"], "workers": d["workers"], "sched": d["sched"],
                                                               "exit0": d["exit0"], "interleaving": d["sig"]} for d in g[:6]]})
