"""C19 -- libfs sparse maps never hide data: every byte outside reported ranges is zero."""
import json
import bisect
import os
import random
import subprocess

from .. import core, tree, model
from ..core import b, u

PROP = "C19"
LEVEL = "exploration"
RULE = ("(a) probe_fs (links /repo's libfs) maps seeded files -- 0..100 data segments, data at offset 0 and at the last byte, sizes not "
        "multiples of 4 KiB, written with and without fsync (delayed allocation), on ext4 (FIEMAP, paged by 32) and tmpfs (no FIEMAP: "
        "map_extents must say None, segment search still checked); the harness reads the file back and requires every byte outside the "
        "ranges returned by map_extents, merge_extents(map_extents) and successive next_sparse_segments calls to be zero, and the "
        "ranges to be ordered and non-overlapping; (b) merge_extents alone: exhaustive over all start-sorted lists of up to K extents over a small universe that overlap, nest or contain empty extents (coverage and boundaries demanded), and exhaustive over all sorted non-overlapping extent lists "
        "with offsets in 0..=U (output sorted/disjoint, covers every input, boundaries are input boundaries) plus random lists over "
        "u64 incl. values near u64::MAX; (c) auxiliary: valgrind memcheck over the >32-extent mapping (FIEMAP buffer contract) and, in "
        "the thorough tier, Miri over libfs's merge unit test. distinct_nontrivial = distinct (fs, segment-count class, first/last "
        "byte data, synced, size alignment) for files + one per merge universe")
ASSUMPTIONS = ["bytes outside the segments the harness wrote are zero by construction; gaps in the reported maps are read back where they intersect written data and fully for files <= 64 MiB",
               "the exhaustive merge enumeration is bounded by the offset universe U stated in the evidence"]
PROBES = ("probe_fs",)

PAGE = 4096


def gen_cases(tier, seed):
    n = 220 if tier == "quick" else 5000
    r = random.Random(seed * 141650939 + 19)
    for i in range(n):
        nseg = r.choice([0, 1, 2, 3, 5, 10, 31, 32, 33, 40, 64, 65, 66, 96, 97, 100, 130, 200] if tier == "thorough" else [0, 1, 2, 3, 5, 10, 32, 33, 40, 65, 70, 100, 130])
        segs, pos = [], 0
        first0 = r.random() < 0.4
        if not first0:
            pos = r.choice([PAGE, 1 << 20, (1 << 20) + 17, 5 * PAGE + 1])
        for k in range(nseg):
            ln = r.choice([1, 100, PAGE - 1, PAGE, PAGE + 1, 3 * PAGE + 5, 20000, 65536])
            segs.append([pos, ln])
            # many-segment files keep every segment in an extent of its own (gap of at least two blocks)
            pos += ln + (r.choice([PAGE, 2 * PAGE, 64 * 1024, 1 << 20, (1 << 20) + 123, 7 * PAGE + 3]) if nseg < 30 else r.choice([3 * PAGE, 64 * 1024, 7 * PAGE + 3, 1 << 18]))
        lastbyte = r.random() < 0.4 and segs
        size = (segs[-1][0] + segs[-1][1]) if lastbyte else pos + r.choice([0, 1, 4095, 4096, 100000])
        if not segs:
            size = r.choice([0, 1, PAGE, (1 << 20) + 3])
        yield {"kind": "file", "size": size, "segs": segs, "sync": r.random() < 0.5, "fs": "tmpfs" if r.random() < 0.3 else "ext4", "seed": r.randrange(1, 1 << 30),
               "first0": first0, "lastbyte": bool(lastbyte), "dense": False}
    for i in range(40 if tier == "quick" else 600):
        # alternating written / preallocated-unwritten blocks: every extent touches its neighbours, so extents meet
        # exactly at FIEMAP page boundaries (32, 64, ...); random phase decides which of them carry data
        nblk = r.choice([33, 34, 40, 64, 65, 66, 70, 97, 130])
        phase = r.randrange(2)
        start = r.choice([0, 0, PAGE, 16 * PAGE])
        segs = [[start + k * PAGE, PAGE] for k in range(nblk) if k % 2 == phase]
        tail = start + nblk * PAGE + (4 << 20)
        segs.append([tail, r.choice([1, 100, PAGE])])
        yield {"kind": "file", "size": tail + segs[-1][1] + r.choice([0, 1, 5000]), "segs": segs, "falloc": [[start, nblk * PAGE]], "sync": r.random() < 0.5,
               "fs": "ext4", "seed": r.randrange(1, 1 << 30), "first0": start == 0 and phase == 0, "lastbyte": False, "dense": False, "touching": True}
    for i in range(16 if tier == "quick" else 200):
        # a preallocated region partly overwritten and NOT synced: FIEMAP (without FLAG_SYNC) may still call it unwritten
        ln = r.choice([PAGE, 3 * PAGE, 64 * 1024])
        w0 = r.choice([0, 100, PAGE])
        segs = [[(1 << 20) + w0, r.choice([1, 4973, ln - w0])]]
        yield {"kind": "file", "size": (4 << 20) + r.choice([0, 1]), "segs": segs, "falloc": [[1 << 20, ln]], "sync": False, "fs": "ext4",
               "seed": r.randrange(1, 1 << 30), "first0": False, "lastbyte": False, "dense": False, "touching": False, "prealloc_unsynced": True}
    for nseg in ([8300, 33100] if tier == "quick" else [8191, 8192, 8193, 12000, 20000, 32767, 32768, 32769, 40000, 66000]):
        # thousands of extents (hundreds, then more than a thousand FIEMAP pages): "for any number of extents"
        stride = 3 * PAGE if nseg < 30000 else 2 * PAGE
        segs = [[k * stride, PAGE if k % 7 else 100] for k in range(nseg)]
        yield {"kind": "file", "size": segs[-1][0] + segs[-1][1], "segs": segs, "sync": True, "fs": "ext4", "seed": r.randrange(1, 1 << 30),
               "first0": True, "lastbyte": True, "dense": False, "huge_count": True}
    for i in range(12 if tier == "quick" else 100):
        size = r.choice([0, 1, 4095, 4096, 4097, 100000, 1 << 20])
        yield {"kind": "file", "size": size, "segs": None, "sync": r.random() < 0.5, "fs": "tmpfs" if r.random() < 0.3 else "ext4", "seed": r.randrange(1, 1 << 30),
               "first0": True, "lastbyte": True, "dense": True}
    for i in range(4 if tier == "quick" else 20):
        # logical offsets above 4 GiB (32-bit arithmetic would truncate them); sparse, so cheap
        b0 = (4 << 30) + r.choice([0, 4096, 123456789])
        segs = [[8192, 4096], [b0, 5000], [b0 + (1 << 20), 1]]
        yield {"kind": "file", "size": segs[-1][0] + segs[-1][1] + r.choice([0, 77]), "segs": segs, "sync": r.random() < 0.5, "fs": r.choice(["ext4", "tmpfs"]),
               "seed": r.randrange(1, 1 << 30), "first0": False, "lastbyte": False, "dense": False, "huge": True}
    yield {"kind": "merge-exhaustive", "U": 14 if tier == "quick" else 18}
    yield {"kind": "merge-exhaustive-flags", "U": 9 if tier == "quick" else 11}   # every assignment of the `shared` flag as well
    # start-sorted lists that overlap, nest, repeat a start or contain empty extents (coverage and boundaries only)
    yield {"kind": "merge-exhaustive-overlap", "U": 7 if tier == "quick" else 9, "K": 3 if tier == "quick" else 4}
    for k in range(4 if tier == "quick" else 32):
        yield {"kind": "merge-random", "seed": r.randrange(1, 1 << 30), "n": 20000 if tier == "quick" else 200000}
    yield {"kind": "memcheck", "seed": r.randrange(1, 1 << 30)}
    if tier == "thorough":
        yield {"kind": "miri"}


def check_ranges(name, ranges, size, written, path, res, tag):
    """ranges: list of [s,e).  written: list of [off,len] the harness wrote."""
    prev = 0
    ok = True
    for s, e in ranges:
        if s >= e or s < prev:
            res["viol"].append({"sig": "%s:unordered-or-overlapping" % name, "what": "%s ranges not ordered/disjoint: ...%s... ; %s" % (name, [s, e], tag)})
            return False
        prev = e
    # gaps
    gaps, pos = [], 0
    for s, e in ranges:
        if s > pos:
            gaps.append((pos, min(s, size)))
        pos = max(pos, e)
    if pos < size:
        gaps.append((pos, size))
    wsorted = sorted(written)
    wstarts = [w[0] for w in wsorted]
    fd = os.open(path, os.O_RDONLY)
    try:
        for a, z in gaps:
            if z <= a:
                continue
            # only the parts of the gap that intersect something we wrote can be non-zero; for small files read it all
            if size <= (256 << 20):
                parts = [(a, z)]
            else:
                # written segments (sorted by offset) that intersect the gap
                k = max(0, bisect.bisect_left(wstarts, a) - 1)
                parts = []
                while k < len(wsorted) and wsorted[k][0] < z:
                    o, l = wsorted[k]
                    if max(a, o) < min(z, o + l):
                        parts.append((max(a, o), min(z, o + l)))
                    k += 1
            for x, y in parts:
                p = x
                while p < y:
                    chunk = os.pread(fd, min(1 << 22, y - p), p)
                    if not chunk:
                        break
                    if any(chunk):
                        off = p + next(i for i, c in enumerate(chunk) if c)
                        res["viol"].append({"sig": "%s:data-outside-ranges" % name, "what": "byte at offset %d is non-zero but lies outside every range reported by %s (gap [%d,%d)); %s"
                                            % (off, name, a, z, tag)})
                        return False
                    p += len(chunk)
    finally:
        os.close(fd)
    return ok


def run_file(case, res):
    with core.Sandbox(case["fs"], "c19") as sb:
        root = sb.root
        e = {"p": "f", "k": "f", "size": case["size"], "segs": case["segs"], "seed": case["seed"], "sync": case["sync"], "falloc": case.get("falloc")}
        tree.materialize(root, [e])
        path = os.path.join(b(root), b"f")
        warm = []
        if case["fs"] == "ext4" and case.get("seed", 0) % 3 == 0:
            # another file, of 40 extents (more than one page of the extent query), is mapped first in the same process
            wp = os.path.join(sb.root, "warm-up")
            with open(wp, "wb") as wf:
                for k in range(40):
                    wf.seek(k * 4 * PAGE)
                    wf.write(b"w" * PAGE)
                os.fsync(wf.fileno())
            warm = [wp]
            res["counters"]["mapped-after-another-file"] = 1
        seekfault = 0
        if not warm and case.get("seed", 0) % 4 == 1 and case["segs"]:
            # one data/hole search is refused (EINVAL: a filesystem or filter without SEEK_DATA / SEEK_HOLE): a search that got no answer
            # is no "the rest is a hole"
            seekfault = 1 + case["seed"] % 3
            run = core.run_supervised(sb, [PROBE_BIN["probe_fs"], "map", path], {"log_mode": "none", "rules": [{"id": "k", "sys": "lseek", "under": sb.root + "/", "action": "fault", "errno": 22, "nth": seekfault}]})
            if run.verdict != "exited" or run.status != 0:
                res["inconc"].append("probe-failed")
                return
            if not run.rule("k")["applied"]:
                seekfault = 0
            else:
                res["counters"]["runs-with-a-refused-seek"] = 1
            out_ = run.stdout
        elif not warm and case["fs"] == "ext4" and case["segs"] and len(case["segs"]) > 33 and case.get("seed", 0) % 2 == 0:
            # the extent query is answered once and refused from then on (EOPNOTSUPP for the second and later pages: a filter, a stacked
            # filesystem): part of a map is no map
            run = core.run_supervised(sb, [PROBE_BIN["probe_fs"], "map", path], {"log_mode": "none", "rules": [{"id": "q", "sys": "ioctl", "iocmd": 0xC020660B, "under": sb.root + "/", "action": "fault", "errno": 95,
                                                                                                                "from": 2 + case["seed"] % 2}]})
            if run.verdict != "exited" or run.status != 0:
                res["inconc"].append("probe-failed")
                return
            if run.rule("q")["applied"]:
                res["counters"]["runs-with-later-extent-queries-refused"] = 1
            out_ = run.stdout
        else:
            r = subprocess.run([PROBE_BIN["probe_fs"], "map", path] + warm, capture_output=True, timeout=120)
            if r.returncode != 0:
                res["inconc"].append("probe-failed")
                res["trace"] = r.stderr.decode("latin-1")[-500:]
                return
            out_ = r.stdout.decode()
        j = json.loads(out_)
        written = case["segs"] if case["segs"] is not None else [[0, case["size"]]]
        tag = "fs=%s size=%d segments=%d synced=%s first=%s" % (case["fs"], case["size"], len(written), case["sync"], written[:2])
        maps = 0
        if (isinstance(j["extents"], dict) or isinstance(j["merged"], dict)) and res["counters"].get("runs-with-later-extent-queries-refused"):
            res["counters"]["refused-extent-query-reported-as-error"] = 1
        elif isinstance(j["extents"], dict) or isinstance(j["merged"], dict):
            res["viol"].append({"sig": "map_extents:error", "what": "map_extents/merge_extents returned an error: %s %s; %s" % (j["extents"], j["merged"], tag)})
        else:
            if case["fs"] == "tmpfs" and j["extents"] is not None:
                res["counters"]["tmpfs-with-extents"] = 1
            if j["extents"] is not None:
                check_ranges("map_extents", j["extents"], case["size"], written, path, res, tag)
                check_ranges("merged", j["merged"], case["size"], written, path, res, tag)
                maps += 2
                res["counters"]["extents-reported"] = len(j["extents"])
                if len(j["extents"]) > 32:
                    res["counters"]["files-with->32-extents"] = 1
                    ex = j["extents"]
                    if any(ex[k][0] == ex[k - 1][1] for k in range(32, len(ex), 32)):
                        res["counters"]["files-with-extents-touching-at-a-page-boundary"] = 1
        if j["seg_err"] and seekfault:
            res["counters"]["refused-seek-reported-as-error"] = 1
        elif j["seg_err"]:
            res["viol"].append({"sig": "segments:error", "what": "next_sparse_segments iteration failed: %s; %s" % (j["seg_err"], tag)})
        else:
            check_ranges("segments", j["segments"], case["size"], written, path, res, tag)
            maps += 1
        res["counters"]["maps-checked"] = maps
        res["counters"]["fs:" + case["fs"]] = 1
        n = len(written)
        res["evals"].append({"key": [case["fs"], "0" if n == 0 else "1-3" if n <= 3 else "4-32" if n <= 32 else ">32", case["first0"], case["lastbyte"], case["sync"],
                                     case["size"] % PAGE == 0, case["dense"], bool(case.get("touching")), bool(case.get("huge")), bool(case.get("prealloc_unsynced"))],
                             "sample": {"fs": case["fs"], "size": case["size"], "written": written[:5], "n_written": n, "synced": case["sync"],
                                        "extents": (j["extents"] or [])[:5] if not isinstance(j["extents"], dict) else j["extents"],
                                        "n_extents": len(j["extents"]) if isinstance(j["extents"], list) else None, "segments": j["segments"][:5]}})


def run_case(case):
    res = {"evals": [], "viol": [], "inconc": [], "counters": {}}
    k = case["kind"]
    if k == "file":
        run_file(case, res)
    elif k in ("merge-exhaustive", "merge-random", "merge-exhaustive-flags", "merge-exhaustive-overlap"):
        argv = [PROBE_BIN["probe_fs"], k] + ([str(case["U"])] + ([str(case["K"])] if "K" in case else []) if k != "merge-random" else [str(case["seed"]), str(case["n"])])
        r = subprocess.run(argv, capture_output=True, timeout=3000)
        out = r.stdout.decode()
        try:
            j = json.loads(out[:out.index(',"examples"')] + "}")
        except ValueError:
            res["inconc"].append("probe-output-unparsable")
            res["trace"] = out[-300:] + r.stderr.decode()[-300:]
            return res
        if j["violations"]:
            res["viol"].append({"sig": "merge_extents:%s" % k, "what": "merge_extents broke its contract on %d list(s): %s" % (j["violations"], out[out.index('"examples"'):][:600])})
        if k == "merge-exhaustive-flags":
            res["counters"]["merge-exhaustive-with-shared-flags-universe"] = j["universe"]
            res["counters"]["merge-exhaustive-with-shared-flags-lists"] = j["lists"]
            res["evals"].append({"key": ["merge-exhaustive-flags", j["universe"]]})
        elif k == "merge-exhaustive-overlap":
            res["counters"]["merge-exhaustive-overlapping-lists"] = j["lists"]
            res["evals"].append({"key": ["merge-exhaustive-overlap", j["universe"], j["max_extents"]]})
        elif k == "merge-exhaustive":
            res["counters"]["merge-exhaustive-universe"] = j["universe"]
            res["counters"]["merge-exhaustive-lists"] = j["lists"]
            res["counters"]["merge-exhaustive-lists-with-merges"] = j["lists_with_merges"]
            res["evals"].append({"key": ["merge-exhaustive", j["universe"]], "sample": {"merge_exhaustive": j}})
        else:
            res["counters"]["merge-random-lists"] = j["random_lists"]
            res["evals"].append({"key": ["merge-random", case["seed"]]})
    elif k == "memcheck":
        with core.Sandbox("ext4", "c19") as sb:
            segs = [[i * (1 << 20), 5000] for i in range(70)]
            tree.materialize(sb.root, [{"p": "f", "k": "f", "size": 71 << 20, "segs": segs, "seed": case["seed"], "sync": True}])
            r = subprocess.run(["valgrind", "--tool=memcheck", "--error-exitcode=97", "-q", PROBE_BIN["probe_fs"], "map", os.path.join(sb.root, "f")],
                               capture_output=True, timeout=600)
            if r.returncode == 97:
                res["viol"].append({"sig": "memcheck:fiemap", "what": "valgrind memcheck reported an error on the FIEMAP path: " + r.stderr.decode("latin-1")[-800:]})
            elif r.returncode != 0:
                res["inconc"].append("valgrind-failed")
            else:
                j = json.loads(r.stdout.decode())
                res["counters"]["memcheck-clean-runs"] = 1
                res["counters"]["memcheck-extents"] = len(j["extents"] or [])
                res["evals"].append({"key": ["memcheck", len(j["extents"] or [])]})
    elif k == "miri":
        env = dict(core.ENV)
        env["CARGO_TARGET_DIR"] = os.path.join(core.SCRATCH["ext4"], "target-miri")
        r = subprocess.run(["cargo", "+nightly", "miri", "test", "--offline", "-p", "libfs", "test_extent_merge"], cwd=core.REPO, env=env, capture_output=True, timeout=1800)
        out = (r.stdout + r.stderr).decode("latin-1")
        if "test result: ok" in out:
            res["counters"]["miri-merge-test-ok"] = 1
            res["evals"].append({"key": ["miri"]})
        elif "Undefined Behavior" in out:
            res["viol"].append({"sig": "miri:merge", "what": out[-800:]})
        else:
            res["inconc"].append("miri-unavailable")
    return res
