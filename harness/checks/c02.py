"""C02 -- exit 0 implies the destination tree mirrors the selected source tree."""
import copy
import os
import random

from .. import core, tree, model
from ..core import b, u

PROP = "C02"
LEVEL = "exploration"
RULE = ("seeded cases: 1-3 source trees/files/links (names with spaces, unicode, non-UTF-8 bytes; relative, absolute, "
        "dangling and directory links) x destination {absent, file, empty dir, dir populated by a copy of an older "
        "version with changed contents and retargeted links plus unrelated entries} x spellings (trailing slash, ./, "
        "absolute, dir/../; sources nested below other directories, with spaces, non-ASCII characters or a newline in their own name; now and then a source subdirectory whose open is refused with EACCES) x {-T, --target-directory, --glob} x driver x schedule; oracle: whole-sandbox snapshot "
        "before/after vs. the model's mapping (kind, link text, bytes at every mapped path; every unmapped non-source "
        "entry unchanged; nothing new outside the mapped paths). distinct_nontrivial = distinct (driver, destination "
        "state, source shape, flag, spelling, kinds present) among exit-0 runs")
ASSUMPTIONS = ["two sources with the same basename, sources ending in '.'/'..', and pre-existing entries whose kind "
               "differs from the entry mapped onto them are not generated (the statement does not define them)"]


def subst(spec, root):
    out = copy.deepcopy(spec)
    for e in out:
        if e.get("target", "").startswith("@ROOT@"):
            e["target"] = root + e["target"][len("@ROOT@"):]
    return out


def older_version(r, entries, base_from, base_to):
    """A destination that an earlier copy of an older version of the tree would have left behind."""
    pre = []
    # (directories without anything in them: nothing below them would make the run fail when the older version had a file or a link there)
    empty_dst = {base_to + e["p"][len(base_from):] for e in entries if e["k"] == "d" and (e["p"] == base_from or e["p"].startswith(base_from + "/"))
                 and not any(c["p"].startswith(e["p"] + "/") for c in entries)}
    for e in entries:
        if not (e["p"] == base_from or e["p"].startswith(base_from + "/")):
            continue
        if r.random() < 0.25 and e["p"] != base_from:
            continue  # did not exist in the older version
        n = copy.deepcopy(e)
        n["p"] = base_to + e["p"][len(base_from):]
        if n["k"] == "f":
            if r.random() < 0.7:
                n["seed"] = r.randrange(1, 1 << 30)
                n["size"] = r.choice([0, 1, e["size"], e["size"] + 100, max(0, e["size"] - 1), 5000])
        elif n["k"] == "l":
            x = r.random()
            if x < 0.4:
                n["target"] = "old/" + n["target"]
            elif x < 0.7:
                # the same place, spelled differently: the text is not identical
                t = n["target"]
                n["target"] = r.choice([t + "/", t + "/.", t.replace("/", "//", 1) if "/" in t else t + "//", t.replace("/", "/./", 1) if "/" in t else t + "/./"])
        pre.append(n)
    # now and then the older version had another kind of entry at a path (the run may refuse; exit 0 must still mean a mirror)
    for n in pre:
        if n["p"] == base_to or r.random() > (0.5 if n["p"] in empty_dst else 0.12):
            continue
        if n["k"] == "d":
            # (a link to a real directory elsewhere: a directory "created" there would put the children outside the destination)
            n.update({"k": r.choice(["f", "l", "l", "l"]), "size": 3, "seed": 4, "segs": None, "target": r.choice(["nowhere", "../zz-target-file", "@ROOT@/by", "@ROOT@/by"])})
            n["flipped"] = True
        elif n["k"] == "f" and r.random() < 0.3:
            # the older version had a link here that leads nowhere: copying the file "through" it would create something at a place
            # no source maps onto (next to the link, or outside the destination altogether)
            n.update({"k": "l", "target": r.choice(["nowhere-at-all", "../not-there-either", "@ROOT@/by/not-there", "@ROOT@/by/not-there"])})
            n["flipped"] = True
        elif n["k"] == "f" and r.random() < 0.5:
            n.clear()
            n.update({"p": None})
    pre = [n for n in pre if n.get("p")]
    flipped = {n["p"] for n in pre if n.get("flipped")}
    pre = [n for n in pre if not any(n["p"].startswith(f + "/") for f in flipped)]
    # parents of skipped entries must exist: drop children whose parent is missing
    have = set()
    out = []
    for n in pre:
        par = os.path.dirname(n["p"])
        if n["p"] == base_to or par in have or par == os.path.dirname(base_to) or par == "":
            out.append(n)
            if n["k"] == "d":
                have.add(n["p"])
    # unrelated entries nobody maps onto
    dirs_out = {n["p"] for n in out if n["k"] == "d"}
    for d in [base_to] + sorted(have)[:2]:
        if d in dirs_out:
            out.append({"p": d + "/zz-unrelated-%d" % r.randrange(100), "k": "f", "size": 33, "seed": r.randrange(1, 1 << 30), "segs": None})
    return out


def gen_cases(tier, seed):
    n = 1500 if tier == "quick" else 15000
    r = random.Random(seed * 7919 + 2)
    for i in range(n):
        driver = ["parfile", "parblock"][i % 2]
        nsrc = r.choice([1, 1, 1, 2, 3])
        spec, sources, shapes = [], [], []
        flag0 = r.choice(["", "", "", "-T", "--target-directory", "--glob"])
        nest = flag0 != "--glob" and r.random() < 0.2
        if nest:
            spec += [{"p": "nst", "k": "d"}, {"p": "nst/in", "k": "d"}]
        for k in range(nsrc):
            shape = r.choice(["tree", "tree", "tree", "file", "linkfile", "emptydir", "deep", "hardlink", "linkdir"]) if k or nsrc > 1 else r.choice(["tree", "tree", "file", "linkfile", "emptydir", "deep", "linkdir"])
            if shape == "deep" and r.random() < 0.35 and not any(s_ == "verydeep" for s_ in shapes):
                shape = "verydeep"
            if shape == "hardlink" and not any(s_ == "file" for s_ in shapes):
                shape = "file"
            name = "s%d" % k
            if flag0 != "--glob":
                # the source's own name and position: nested below other directories, with spaces, non-ASCII characters, a newline (the CLI itself rejects non-UTF-8 arguments)
                name = ("nst/in/" if nest and r.random() < 0.7 else "") + name + r.choice(["", "", "", " x y", "-\xc3\xbc", "\nz", ".", "..", "-v1."])      # (a name may well end in a dot, or in two)
            if shape in ("tree", "deep"):
                spec.append({"p": name, "k": "d"})
                spec += tree.gen_tree(r, depth=2 if shape == "tree" else 5, fanout=4 if shape == "tree" else 2,
                                      kinds=("f", "f", "d", "l"), root_abs="@ROOT@", prefix=name,
                                      max_entries=40)
                # gen_tree computes link targets relative to the tree root: fix up relative targets
                for k2 in range(r.randint(0, 2)):
                    par = r.choice([e["p"] for e in spec if e["k"] == "d" and (e["p"] == name or e["p"].startswith(name + "/"))])
                    spec.append({"p": par + "/emptydir%d" % k2, "k": "d"})
                files_ = [e["p"] for e in spec if e["k"] == "f" and e["p"].startswith(name + "/")]
                if files_ and r.random() < 0.3:
                    spec.append({"p": name + "/hardlink-of-sibling", "k": "hard", "target": r.choice(files_)})
            elif shape == "verydeep":
                # hundreds of levels (short names: the path stays far below PATH_MAX), entries at and beyond round numbers of levels
                spec.append({"p": name, "k": "d"})
                cur = name
                levels = r.choice([257, 300, 520])
                for lv in range(1, levels + 1):
                    cur += "/" + "abcdefgh"[lv % 8]
                    spec.append({"p": cur, "k": "d"})
                    if lv in (1, 127, 128, 129, 255, 256, 257, 258, 511, 512, 513, levels) or lv % 97 == 0:
                        spec.append({"p": cur + "/f%d" % lv, "k": "f", "size": lv % 50, "seed": r.randrange(1, 1 << 30), "segs": None})
                        if lv % 2:
                            spec.append({"p": cur + "/l%d" % lv, "k": "l", "target": "f%d" % lv})
            elif shape == "emptydir":
                spec.append({"p": name, "k": "d"})
            elif shape == "hardlink":
                # another name of an earlier top-level file: a source entry of its own
                spec.append({"p": name, "k": "hard", "target": sources[shapes.index("file")]})
            elif shape == "linkdir":
                # a link to a directory, named on the command line: copied as a link, its children are not part of the selection
                spec += [{"p": "rd%d" % k, "k": "d"}, {"p": "rd%d/inside" % k, "k": "f", "size": 300, "seed": r.randrange(1, 1 << 30), "segs": None},
                         {"p": "rd%d/sub" % k, "k": "d"}, {"p": "rd%d/sub/deeper" % k, "k": "f", "size": 5, "seed": r.randrange(1, 1 << 30), "segs": None}]
                spec.append({"p": name, "k": "l", "target": r.choice(["rd%d" % k, "rd%d" % k, "@ROOT@/rd%d" % k]) if "/" not in name else "@ROOT@/rd%d" % k})
            elif shape == "file":
                spec.append({"p": name, "k": "f", "size": r.choice([0, 5, 4096, 70000]), "seed": r.randrange(1, 1 << 30), "segs": None})
            else:
                spec.append({"p": "tgt%d" % k, "k": "f", "size": 9, "seed": r.randrange(1, 1 << 30), "segs": None})
                spec.append({"p": name, "k": "l", "target": r.choice(["tgt%d" % k, "@ROOT@/tgt%d" % k, "nowhere"])})
            shapes.append(shape)
            sources.append(name)
        # bystanders
        spec.append({"p": "by", "k": "d"})
        spec += tree.gen_tree(r, depth=1, fanout=3, kinds=("f", "d", "l"), prefix="by", max_entries=6)
        has_dir = any(s in ("tree", "deep", "verydeep", "emptydir") for s in shapes)
        dstate = r.choice(["absent", "emptydir", "populated", "populated", "file", "linkdir"])
        flag = flag0
        if nsrc > 1 and dstate in ("absent", "file"):
            dstate = "emptydir"
        if dstate == "file" and has_dir:
            dstate = "absent"
        if flag == "-T" and nsrc > 1:
            flag = ""
        if flag == "--target-directory" and dstate in ("absent", "file") and nsrc > 1:
            flag = ""
        pre = []
        if dstate == "linkdir":
            if flag == "-T":
                flag = ""
            pre += [{"p": "realdst", "k": "d"}, {"p": "realdst/already-there", "k": "f", "size": 4, "seed": 8, "segs": None}, {"p": "dst", "k": "l", "target": "realdst"}]
        if dstate == "file":
            pre.append({"p": "dst", "k": "f", "size": 11, "seed": 5, "segs": None})
        elif dstate in ("emptydir", "populated"):
            pre.append({"p": "dst", "k": "d"})
            if dstate == "populated":
                for s, shape in zip(sources, shapes):
                    if shape in ("linkfile", "linkdir"):
                        if r.random() < 0.5:
                            cur = [e["target"] for e in spec if e["p"] == s][0]
                            pre.append({"p": "dst/" + os.path.basename(s) if flag != "-T" else "dst", "k": "l", "target": r.choice(["stale-target", cur + "/", cur + "/.", cur + "//"])})
                        continue
                    if flag == "-T":
                        if shape in ("tree", "deep", "verydeep", "emptydir"):
                            pre += [e for e in older_version(r, spec, s, "dst") if e["p"] != "dst"]
                    else:
                        pre += older_version(r, spec, s, "dst/" + os.path.basename(s))
                if flag == "-T" and shapes[0] in ("file", "linkfile", "linkdir"):
                    # -T onto an existing directory with a non-directory source is an error case, not C02's
                    pre = [e for e in pre if e["p"] != "dst"] + []
                    dstate = "absent"
                pre.append({"p": "dst/keep-me", "k": "f", "size": 21, "seed": 6, "segs": None}) if any(e["p"] == "dst" for e in pre) else None
        for k_, sh_ in enumerate(shapes):
            # what a relative link text would designate inside the destination directory: an unrelated entry there
            if sh_ == "linkdir" and any(e["p"] == "dst" and e["k"] == "d" for e in pre) and r.random() < 0.7:
                pre += [{"p": "dst/rd%d" % k_, "k": "d"}, {"p": "dst/rd%d/inside" % k_, "k": "f", "size": 17, "seed": 99, "segs": None}]
        spell = r.choice(["plain", "plain", "slash", "dot", "abs", "dotdot", "slashdot"])
        if spell == "slashdot" and (nsrc > 1 or dstate in ("file", "linkdir") or flag0 in ("-T", "--glob")):
            spell = "slash"      # (several sources spelled `dir/.` all map onto the destination itself; keep that to one)
        def sp(s, isdir):
            if spell == "slashdot" and isdir: return s + "/."
            if spell == "slash" and isdir: return s + "/"
            if spell == "dot": return "./" + s
            if spell == "abs": return "@ROOT@/" + s
            if spell == "dotdot": return "by/../" + s
            return s
        args = ["--driver", driver, "-w", str(r.choice([0, 1, 2, 4, 8]))]
        for o, pr in (("--fsync", 0.1), ("--no-perms", 0.1), ("--no-timestamps", 0.1), ("--ownership", 0.1), ("--no-progress", 0.1), ("--gitignore", 0.08), ("-f", 0.05)):
            if r.random() < pr:
                args.append(o)
        if r.random() < 0.15:
            args += ["--reflink", r.choice(["never", "auto"])]
        if r.random() < 0.08:
            args.append(r.choice(["-v", "-vv", "-vvv"]))
        if r.random() < 0.2:
            args += ["--block-size", r.choice(["512", "4096", "1MB"])]
        if has_dir or "linkdir" in shapes:
            args.append("-r")
        dsp = r.choice(["dst", "dst", "dst/", "@ROOT@/dst", "./dst"]) if dstate != "absent" or has_dir else "dst"
        if dstate == "file":
            dsp = r.choice(["dst", "@ROOT@/dst", "./dst"])
        srcargs = [sp(s, sh in ("tree", "deep", "verydeep", "emptydir")) for s, sh in zip(sources, shapes)]
        if flag == "--glob":
            args.append("--glob")
            srcargs = [r.choice(["s*", "s?", "s[0-9]"])] if r.random() < 0.7 else ["s*", "s?"]    # overlapping patterns select an entry twice
            if spell == "abs":
                srcargs = ["@ROOT@/" + srcargs[0]]
            # every s<k> in the root is selected
        if flag == "-T":
            args.append("-T")
        if flag == "--target-directory":
            args += ["--target-directory", dsp] + srcargs
        else:
            args += srcargs + [dsp]
        # now and then one source subdirectory cannot be listed (its open is refused with EACCES, as for a mode-000 directory and
        # an unprivileged user): exit 0 must still mean a complete mirror
        deny = None
        subdirs = [e["p"] for e in spec if e["k"] == "d" and any(e["p"].startswith(s_ + "/") for s_ in sources)
                   and any(c["p"].startswith(e["p"] + "/") for c in spec)]
        if subdirs and flag != "--glob" and r.random() < 0.1:
            deny = r.choice(subdirs)
        # a process that sees a single CPU (affinity mask, container quota); together with -w 0 ("as many workers as CPUs")
        onecpu = deny is None and r.random() < 0.08
        if onecpu:
            args[args.index("-w") + 1] = "0"
        # source and destination on two freshly made filesystems of the same kind: their inode numbers are handed out in the same
        # sequence, so entries of the two trees share numbers (an identity is a device *and* a number); the run is arranged so that
        # a source sub-directory has the number of the first entry of the destination
        # now and then the creation of one symbolic link is refused (EPERM: a filesystem without links, an immutable directory)
        r4 = random.Random(seed * 37 + i)
        denylink = None
        if deny is None and not onecpu and any(e["k"] == "l" and any(e["p"].startswith(s_ + "/") or e["p"] == s_ for s_ in sources) for e in spec) and r4.random() < 0.15:
            denylink = r4.choice([1, 1, 2, 3])
        rt = random.Random(seed * 31 + i)
        twin = any(e["p"] == "dst" and e["k"] == "d" for e in pre) and not any(e["k"] == "hard" for e in pre) and rt.random() < 0.12
        yield {"denylink": denylink, "twin": twin, "onecpu": onecpu, "deny": deny, "fs": "ext4", "spec": spec, "pre": pre, "args": args, "sources": sources, "shapes": shapes, "dstate": dstate,
               "flag": flag, "spell": spell, "driver": driver, "T": flag == "-T",
               "sched": r.choice(["os", "os", "os", "pct"]), "sseed": r.randrange(1 << 30)}


def fix_rel_links(spec):
    """gen_tree writes relative link targets relative to the tree prefix; nothing to fix (relpath used full paths)."""
    return spec


def run_case(case):
    res = {"evals": [], "viol": [], "inconc": [], "counters": {}}
    with core.Sandbox(case["fs"], "c02") as sb:
        mounted = []
        try:
            return _run_case(case, sb, res, mounted)
        finally:
            for m in reversed(mounted):
                core.umount(m)


def _twin_mounts(case, root, res, mounted):
    """Sources on one fresh tmpfs, the destination directory on another; the destination's inode counter is advanced so that its
    next entry gets the number of a sub-directory of a source (of any source entry when there is no such directory)."""
    if not core.mount_tmpfs(root, "size=64m"):
        return False
    mounted.append(root)
    dst = os.path.join(root, "dst")
    os.mkdir(dst)
    if not core.mount_tmpfs(dst, "size=64m"):
        return False
    mounted.append(dst)
    tree.materialize(root, subst(case["spec"], root))
    below = [e["p"] for e in case["spec"] if any(e["p"].startswith(s_ + "/") for s_ in case["sources"])]
    cands = [p_ for p_ in below if any(e["p"] == p_ and e["k"] == "d" for e in case["spec"])] or below or list(case["sources"])
    want = os.lstat(os.path.join(b(root), b(random.Random(len(below)).choice(cands)))).st_ino
    probe = os.path.join(b(dst), b".probe")
    for _ in range(20000):
        os.close(os.open(probe, os.O_CREAT | os.O_WRONLY))
        ino = os.lstat(probe).st_ino
        os.unlink(probe)
        if ino + 1 >= want:
            break
    res["counters"]["twin-filesystem-runs"] = 1
    res["counters"]["twin-runs-with-the-numbers-lined-up"] = int(ino + 1 == want)
    tree.materialize(root, subst(case["pre"], root))
    return True


def _run_case(case, sb, res, mounted):
    if True:
        root = sb.root
        if case.get("twin"):
            if not _twin_mounts(case, root, res, mounted):
                res["inconc"].append("mount-unavailable")
                return res
        else:
            tree.materialize(root, subst(case["spec"], root))
            tree.materialize(root, subst(case["pre"], root))
        pre = tree.snapshot(root)
        args = [a.replace("@ROOT@", root) for a in case["args"]]
        if case.get("deny"):
            # (matched by suffix: the directory may be named relatively, absolutely or through dir/../; the destination copy of it is never opened)
            run = core.run_xcp(sb, args, {"log_mode": "none", "rules": [{"id": "deny", "sys": "openat", "suffix": "/" + case["deny"], "action": "fault", "errno": 13}]})
            res["counters"]["unlistable-dir-runs"] = 1
            if run.verdict == "exited" and run.rule("deny")["applied"] == 0:
                res["counters"]["unlistable-dir-not-reached"] = 1
        elif case.get("denylink"):
            run = core.run_xcp(sb, args, {"log_mode": "none", "rules": [{"id": "dl", "sys": "symlink", "under": root + "/", "action": "fault", "errno": 1, "nth": case["denylink"]},
                                                                       {"id": "dl2", "sys": "symlinkat", "under": root + "/", "action": "fault", "errno": 1, "nth": case["denylink"]}]})
            if run.verdict == "exited" and (run.rule("dl")["applied"] or run.rule("dl2")["applied"]):
                res["counters"]["runs-with-a-refused-symlink"] = 1
        elif case.get("onecpu"):
            run = core.run_plain(["taskset", "-c", "5"] + core.xcp_argv(args), root)
            res["counters"]["one-cpu-runs"] = 1
        elif case["sched"] == "os":
            run = core.run_plain(core.xcp_argv(args), root)
        else:
            run = core.run_xcp(sb, args, {"sched": "pct", "sched_seed": case["sseed"], "sched_d": 3, "log_mode": "none", "pct_horizon": 400})
        if run.verdict != "exited":
            res["inconc"].append("run-" + run.verdict)
            return res
        if not run.exit0:
            res["counters"]["nonzero-exit"] = 1
            why = (run.stderr.strip().splitlines() or ["?"])[-1]
            res["counters"]["nonzero:" + "".join(c if c.isalpha() or c == " " else "" for c in why.replace(root, ""))[:48]] = 1
            return res
        post = tree.snapshot(root)
        try:
            srcs_ = case["sources"] * 2 if case["flag"] == "--glob" and len([a for a in case["args"] if a.endswith("s*") or a.endswith("s?")]) > 1 else case["sources"]
            if case.get("spell") == "slashdot":
                # the model is given the sources as they were spelled: `dir/.` stands for the directory's contents
                srcs_ = [s + "/." if sh in ("tree", "deep", "verydeep", "emptydir") else s for s, sh in zip(case["sources"], case["shapes"])]
            mapping, dest_rel = model.map_sources(pre, root, srcs_, "dst", no_target_dir=case["T"])
        except model.ModelSkip as e:
            res["inconc"].append("model-skip")
            return res
        tag = "%s:%s:%s" % (case["driver"], case["dstate"], case["flag"] or "noflag")
        kinds = sorted({m["rec"]["k"] for m in mapping})
        for frag, msg in model.check_mirror(pre, post, mapping):
            res["viol"].append({"sig": "%s:%s" % (case["driver"], frag), "what": "exit 0 but %s [%s] args=%s" % (msg, tag, " ".join(case["args"]))})
        src_paths = set()
        for s in case["sources"]:
            src_paths.add(s)
            src_paths.update(model.children(pre, s))
        mapped = [m["dst"] for m in mapping]
        for frag, msg in model.check_untouched(pre, post, mapped, exempt=src_paths):
            where = "inside-dest" if msg.split("'")[1].startswith("dst") or msg.split('"')[0].startswith("dst") else "outside-dest"
            res["viol"].append({"sig": "%s:untouched:%s" % (case["driver"], frag), "what": "exit 0 but %s [%s] args=%s" % (msg, tag, " ".join(case["args"]))})
        res["evals"].append({"key": [case["driver"], case["dstate"], tuple(sorted(set(case["shapes"]))), case["flag"], case["spell"], kinds] + (["twin-filesystems"] if case.get("twin") else []) + (["unlistable-dir"] if case.get("deny") else []) + (["one-cpu"] if case.get("onecpu") else []),
                             "sample": {"args": case["args"], "dest_state": case["dstate"], "mapped_entries": len(mapping),
                                        "kinds": kinds, "some_mapped": [[m["src"], m["dst"]] for m in mapping[:5]]}})
        res["counters"]["exit0"] = 1
        res["counters"]["entries-compared"] = len(mapping)
        res["counters"]["unmapped-entries-checked"] = len([p for p in pre if p not in set(mapped) and p not in src_paths])
    return res
