"""C18 -- --fsync flushes every destination file after its last write."""
import os
import random

from .. import core, tree, model, monitors
from ..core import b, u

PROP = "C18"
LEVEL = "exploration"
RULE = ("seeded trees of empty, single-block and multi-block files (2..64 blocks) copied with --fsync by both drivers with workers 1..16 "
        "under supervisor schedules (free, lifo: first queued block finishes last, pct, workers-first, walker-first, jitter), also with "
        "the clone ioctl emulated as successful, with short copy_file_range returns and with --ownership whose fchown is refused (a tolerated failure). Offline monitor over the system-call trace, per "
        "destination inode: there must be a successful fsync/fdatasync whose *entry* follows the *return* of every data-modifying call "
        "(copy_file_range, write, pwrite64, ftruncate, FICLONE) on that inode, for every regular file copied, when the run exits 0. "
        "distinct_nontrivial = distinct (driver, workers, schedule, blocks-per-file class, policy, interleaving signature)")
ASSUMPTIONS = ["the supervisor's total order: exit(w).seq < enter(f).seq means w returned before f began",
               "without --fsync nothing is claimed (a few runs check the monitor is not vacuous: no fsync is seen there)"]


def gen_cases(tier, seed):
    n = 330 if tier == "quick" else 8000
    r = random.Random(seed * 122949829 + 18)
    scheds = [{"sched": "free"}, {"sched": "lifo"}, {"sched": "lifo"}, {"sched": "pct", "sched_d": 3}, {"sched": "role", "role_order": "worker,dispatcher,walker,copy,main"},
              {"sched": "role", "role_order": "walker,dispatcher,copy,main,worker"}, {"sched": "jitter", "jitter": [400, 2500]}]
    for i in range(n):
        driver = ["parblock", "parfile"][i % 2]
        bs = r.choice([4096, 8192, 65536])
        nf = r.randint(1, 5)
        spec = [{"p": "src", "k": "d"}, {"p": "src/d", "k": "d"}]
        maxblocks = 0
        for j in range(nf):
            blocks = r.choice([0, 1, 2, 3, 7, 16, 64])
            size = 0 if blocks == 0 else (blocks - 1) * bs + r.choice([1, bs // 2, bs])
            maxblocks = max(maxblocks, blocks)
            e = {"p": r.choice(["src/f%d", "src/d/f%d"]) % j, "k": "f", "size": size, "seed": r.randrange(1, 1 << 30), "segs": None}
            if r.random() < 0.2:
                e.update({"size": 3 << 20, "segs": r.choice([[], [[0, 5000]], [[4096, 9000], [2 << 20, 70000]]]), "sync": True})   # sparse / all-hole
            spec.append(e)
        pol = r.choice(["none", "none", "none", "cloneok", "cfr-short", "no-cfr", "fsync-fault"])
        sch = dict(r.choice(scheds))
        sch["sched_seed"] = r.randrange(1 << 30)
        use = r.random() < 0.93
        single = [e["p"] for e in spec if e["k"] == "f"][0] if r.random() < 0.12 else None
        if single:
            spec = [e for e in spec if e["k"] == "d" or e["p"] == single]     # one file named on the command line, copied to a new name
        yield {"single": single, "spec": spec, "driver": driver, "bs": bs, "workers": r.choice([0, 1, 2, 4, 8, 16]), "policy": pol, "plan": sch, "overwrite": r.random() < 0.25, "use": use, "maxblocks": maxblocks, "fs": "tmpfs" if i % 5 == 3 else "ext4",
               # the destination directory named through a symbolic link that lives on the other filesystem (what is synced is what
               # the files are written to, wherever the name given on the command line lives)
               "vialink": single is None and i % 7 == 2,
               "extra": r.choice([[], [], [], ["--no-perms"], ["--no-timestamps"], ["--no-perms", "--no-timestamps"], ["--ownership"], ["--backup", "numbered"], ["-L"], ["--gitignore"], ["--reflink", "never"]])}


def run_case(case):
    res = {"evals": [], "viol": [], "inconc": [], "counters": {}}
    with core.Sandbox(case["fs"], "c18") as sb:
        root = sb.root
        tree.materialize(root, case["spec"])
        if case.get("overwrite"):
            # an older copy is already in place (longer files): the sync must still follow the last write of the new data
            tree.materialize(root, [{"p": "dst", "k": "d"}, {"p": "dst/src", "k": "d"}, {"p": "dst/src/d", "k": "d"}] +
                             [dict(e, p="dst/" + e["p"], size=e["size"] + 5000, seed=e["seed"] + 1, segs=None) for e in case["spec"] if e["k"] == "f"])
        rules = []
        if case["policy"] == "cloneok":
            rules.append({"id": "c", "sys": "ioctl", "iocmd": core.FICLONE, "under": root + "/", "action": "cloneok"})
        elif case["policy"] == "fsync-fault":
            # one fsync fails (the run may then stop with a non-zero status; if it exits 0, every file must still have been synced)
            import random as _r
            rr = _r.Random(case["plan"]["sched_seed"])
            rules.append({"id": "f", "sys": "fsync", "under": root + "/", "action": "fault", "errno": rr.choice([22, 38, 95, 5]), "nth": rr.randint(1, 3)})
        elif case["policy"] == "no-cfr":
            rules.append({"id": "r", "sys": "copy_file_range", "under": root + "/", "action": "fault", "errno": 18})
        elif case["policy"] == "cfr-short":
            rules.append({"id": "s", "sys": "copy_file_range", "under": root + "/", "action": "short", "len": "half"})
        extra = list(case.get("extra", []))
        import random as _r2
        if _r2.Random(case["plan"]["sched_seed"] ^ 0x5a5a).random() < 0.15:
            # a step that may fail without failing the copy does fail (ownership cannot be handed over: an unprivileged copy of somebody
            # else's files, a filesystem without owners); the sync that was asked for is still due
            extra = [x for x in extra if x != "--ownership"] + ["--ownership"]
            rules.append({"id": "own", "sys": "fchown", "under": root + "/", "action": "fault", "errno": 1})
            for e in case["spec"]:
                if e["k"] == "f":
                    os.lchown(os.path.join(root, e["p"]), 1234, 4321)      # (a destination that already has the source's owner is not chowned)
            res["counters"]["runs-with-refused-chown"] = 1
        vr = _r2.Random(case["plan"]["sched_seed"] ^ 0x77).random()
        if vr < 0.3:
            # what is logged has nothing to do with what is synced
            extra = [["-v"], ["-vv"], ["-vvv"]][int(vr * 10) % 3] + extra
            res["counters"]["verbose-runs"] = 1
        plan = dict(case["plan"])
        plan.update({"log_mode": "full", "rules": rules, "pct_horizon": 600})
        args = ["--driver", case["driver"], "-w", str(case["workers"]), "--block-size", str(case["bs"])] + (["--fsync"] if case["use"] else []) + extra + (["-r", "src", "dst"] if not case.get("single") else [case["single"], "dst-file"])
        if case.get("single") and case.get("overwrite"):
            tree.materialize(root, [{"p": "dst-file", "k": "f", "size": 123456, "seed": 5, "segs": None}])
        if case.get("vialink"):
            os.makedirs(os.path.join(root, "dst"), exist_ok=True)
            lk = os.path.join(sb.other, "to-dst")
            if os.path.lexists(lk):
                os.unlink(lk)
            os.symlink(os.path.join(root, "dst"), lk)
            args[-1] = lk
            res["counters"]["destination-through-link-on-other-fs"] = 1
        run = core.run_xcp(sb, args, plan)
        if run.verdict != "exited":
            res["inconc"].append("run-" + run.verdict)
            return res
        if any(x["id"] == "own" for x in rules):
            res["counters"]["refused-chown-calls"] = run.rule("own")["applied"]
        if not run.exit0:
            res["counters"]["nonzero-exit"] = 1
            return res
        nfiles = sum(1 for e in case["spec"] if e["k"] == "f")
        # (the supervisor records paths as they were opened: through the link they start with the link's own name)
        mroot, mprefix = (sb.other, "to-dst") if case.get("vialink") else (root, "dst")
        viol, obs = monitors.fsync_after_last_write(run.events, mroot, dest_prefix=mprefix)
        tag = "driver=%s workers=%d bs=%d sched=%s policy=%s" % (case["driver"], case["workers"], case["bs"], case["plan"]["sched"], case["policy"])
        if not case["use"]:
            res["counters"]["control-runs-without-option"] = 1
            res["counters"]["control-fsyncs-seen"] = obs["fsyncs"]
            res["evals"].append({"key": None})
            return res
        if obs["data_writes"] == 0 and obs["fsyncs"] == 0:
            res["inconc"].append("no-write-and-no-fsync-in-trace")
            return res
        if obs["files_written"] != nfiles:
            res["inconc"].append("monitor-saw-%d-of-%d-files" % (obs["files_written"], nfiles))
            return res
        for frag, msg in viol:
            res["viol"].append({"sig": "%s:%s" % (case["driver"], frag), "what": msg + "; " + tag})
        sig, _ = monitors.interleaving_signature(run.events, mroot)
        wt = monitors.writer_threads(run.events, mroot, dest_prefix=mprefix)
        res["counters"]["files-checked"] = nfiles
        res["counters"]["fsyncs-seen"] = obs["fsyncs"]
        res["counters"]["data-calls-seen"] = obs["data_writes"]
        res["counters"]["files-written-by->1-thread"] = sum(1 for s in wt.values() if len(s) > 1)
        res["evals"].append({"key": [case["driver"], case["workers"], case["plan"]["sched"], "1" if case["maxblocks"] <= 1 else "2-7" if case["maxblocks"] <= 7 else "16+", case["policy"], sig],
                             "sample": {"args": args, "sched": case["plan"], "policy": case["policy"], "files": nfiles, "fsyncs": obs["fsyncs"], "data_calls": obs["data_writes"]}})
    return res
