"""C11 -- holes stay holes: sparse files are copied without materialising them."""
import os
import random

from .. import core, tree, model
from ..core import b, u

PROP = "C11"
LEVEL = "exploration"
RULE = ("seeded sparse layouts (0..100 data segments of 1 B .. 200 KB separated by holes >= 1 MiB; leading, trailing, interleaved, "
        "entirely empty; aligned and unaligned to 4 KiB; written with and without fsync) x block sizes below/above the segment sizes "
        "(4 KB .. 16 MB, --no-progress) x workers 1..16 x driver x fresh / existing fully-allocated destination x {ext4 (FIEMAP), "
        "tmpfs (SEEK_DATA only)} x source on the same or on the other filesystem (then the user-space copy path runs); each layout is also copied with every hole scaled x8. Oracle on exit 0 (after the harness fsyncs "
        "the destination): allocated bytes <= source's data (SEEK_DATA segments, rounded) + 8 KiB per segment + 64 KiB; no data "
        "segment of the destination lies wholly inside a source hole >= 1 MiB; allocation of the x8 copy within the same allowance "
        "of the x1 copy; bytes identical. distinct_nontrivial = distinct (driver, fs, block class vs segment size, segment-count "
        "class, leading/trailing hole, prior destination)")
ASSUMPTIONS = ["holes smaller than 1 MiB and filesystems without SEEK_DATA are not demanded",
               "st_blocks after fsync reflects allocation (delayed allocation settled)"]

PAGE = 4096
MIN_HOLE = 1 << 20


def layout(r, nseg, scale=1):
    """(size, segs) with nseg data segments; holes >= 1 MiB * scale."""
    segs = []
    pos = 0
    lead = r.random() < 0.6
    if lead:
        pos += MIN_HOLE * scale * r.choice([1, 2])
    lens = []
    for i in range(nseg):
        ln = r.choice([1, 100, PAGE - 1, PAGE, PAGE + 1, 3 * PAGE, 10000, 65536, 70001, 200000])
        unaligned = r.choice([0, 0, 1, 17, 4095])
        lens.append((ln, unaligned, r.choice([1, 1, 2, 3])))
    return lead, lens


def build(lead, lens, trailing, scale):
    if lens and lens[0] == "huge":
        b0 = (4 << 30) + 8192
        segs = [[0, 4096], [b0, 70000], [b0 + (64 << 20) * scale, 4096]]
        return segs[-1][0] + 4096 + (MIN_HOLE if trailing == "hole" else 0), segs
    if lens and lens[0] == "mostly-data":
        # well over a hundred MiB of data around a single hole of the minimum size: the holes are a tiny share of the file
        _, a_mb, b_mb, where = lens
        hole = MIN_HOLE * scale
        if where == "lead":
            segs = [[hole, (a_mb + b_mb) << 20]]
            return hole + ((a_mb + b_mb) << 20), segs
        if where == "trail":
            segs = [[0, (a_mb + b_mb) << 20]]
            return ((a_mb + b_mb) << 20) + hole, segs
        segs = [[0, a_mb << 20], [(a_mb << 20) + hole, b_mb << 20]]
        return (a_mb << 20) + hole + (b_mb << 20), segs
    segs, pos = [], 0
    if lead:
        pos += MIN_HOLE * scale
    for ln, un, hm in lens:
        start = pos + un
        segs.append([start, ln])
        pos = (start + ln + PAGE - 1) // PAGE * PAGE + MIN_HOLE * hm * scale
    if trailing == "data" and segs:
        size = segs[-1][0] + segs[-1][1]
    elif trailing == "hole":
        size = pos
    else:
        size = pos + 1 - (MIN_HOLE * scale if segs else 0) if segs else pos + MIN_HOLE * scale
        size = max(size, (segs[-1][0] + segs[-1][1]) if segs else 1)
    return size, segs


def gen_cases(tier, seed):
    n = 180 if tier == "quick" else 5000
    r = random.Random(seed * 1299709 + 11)
    blocks = ["4096", "64KB", "1MB", "16MB", "np"]
    for i in range(n):
        driver = ["parblock", "parfile"][i % 2]
        nseg = r.choice([0, 1, 2, 3, 5, 8, 20, 33, 40, 70, 100, 129, 200, 300] if tier == "thorough" else [0, 1, 2, 3, 5, 8, 33, 40, 70, 140])
        lead, lens = layout(r, nseg)
        if i % 37 == 5:
            lens, nseg = ["huge"], 3
        trailing = r.choice(["data", "hole", "hole"])
        yield {"driver": driver, "lead": lead, "lens": lens, "trailing": trailing, "nseg": nseg, "block": blocks[i % len(blocks)],
               "workers": r.choice([1, 2, 4, 16]), "prior": r.choice(["absent", "absent", "full"]), "sync": r.random() < 0.6,
               "fs": "tmpfs" if r.random() < 0.35 else "ext4", "seed": r.randrange(1, 1 << 30), "xdev": r.random() < 0.25,
               "extra": r.choice([[], [], [], ["--fsync"], ["--no-perms", "--no-timestamps"], ["--reflink", "never"], ["--backup", "numbered"], ["--ownership"], ["-L"]])}
    yield from gen_mostly_data(tier, seed)


def gen_mostly_data(tier, seed):
    r = random.Random(seed * 1299709 + 111)
    for i in range(6 if tier == "quick" else 40):
        yield {"driver": ["parblock", "parfile"][i % 2], "lead": False, "lens": ["mostly-data", r.choice([60, 100, 130]), r.choice([40, 70]), ["mid", "lead", "trail"][(i // 2) % 3]],
               "trailing": "data", "nseg": 2, "block": r.choice(["64KB", "1MB", "16MB", "np"]), "workers": r.choice([1, 4, 16]), "prior": r.choice(["absent", "absent", "full"]), "sync": True,
               "fs": "tmpfs" if i % 5 == 4 else "ext4", "seed": r.randrange(1, 1 << 30), "xdev": False, "extra": []}


def alloc(path):
    fd = os.open(path, os.O_RDWR)
    try:
        os.fsync(fd)
        st = os.fstat(fd)
    finally:
        os.close(fd)
    return st.st_blocks * 512


def copy_once(sb, case, scale, res):
    root = sb.root
    for n in os.listdir(b(root)):
        core.force_rmtree(os.path.join(b(root), n))
    size, segs = build(case["lead"], case["lens"], case["trailing"], scale)
    e = {"p": "s", "k": "f", "size": size, "segs": segs, "seed": case["seed"], "sync": case["sync"]}
    sroot = root
    if case.get("xdev"):
        # the source lives on the other filesystem: copy_file_range answers EXDEV and the user-space copy path runs
        sroot = sb.other
        for n in os.listdir(b(sroot)):
            core.force_rmtree(os.path.join(b(sroot), n))
    tree.materialize(sroot, [e])
    srcp, dstp = os.path.join(b(sroot), b"s"), os.path.join(b(root), b"d")
    if case["prior"] == "full":
        # fully allocated previous destination (bounded so that the test stays cheap)
        with open(dstp, "wb") as f:
            blk = tree.body(99, 1 << 20)
            left = min(size, 24 << 20)
            while left > 0:
                f.write(blk[:min(len(blk), left)])
                left -= len(blk)
            os.fsync(f.fileno())
    args = ["--driver", case["driver"], "-w", str(case["workers"])] + (["--no-progress"] if case["block"] == "np" else ["--block-size", case["block"]]) + case.get("extra", []) + [u(srcp), "d"]
    run = core.run_plain(core.xcp_argv(args), root, timeout=300)
    if run.verdict != "exited":
        res["inconc"].append("run-" + run.verdict)
        return None
    if not run.exit0:
        res["counters"]["nonzero-exit"] = res["counters"].get("nonzero-exit", 0) + 1
        return None
    smap = tree.data_map(srcp)
    src_data = sum(h - d for d, h in smap)
    src_alloc = alloc(srcp)
    dst_alloc = alloc(dstp)
    dmap = tree.data_map(dstp)
    same = tree.sha_file(srcp) == tree.sha_file(dstp) and os.path.getsize(dstp) == size
    return {"size": size, "segs": segs, "smap": smap, "dmap": dmap, "src_data": src_data, "src_alloc": src_alloc, "dst_alloc": dst_alloc,
            "same": same, "args": args}


def run_case(case):
    res = {"evals": [], "viol": [], "inconc": [], "counters": {}}
    with core.Sandbox(case["fs"], "c11") as sb:
        r1 = copy_once(sb, case, 1, res)
        if r1 is None:
            return res
        tag = ("source-on-other-fs " if case.get("xdev") else "") + "driver=%s fs=%s block=%s workers=%d prior=%s segments=%d size=%d" % (case["driver"], case["fs"], case["block"], case["workers"], case["prior"], case["nseg"], r1["size"])
        allowance = 8192 * max(1, len(r1["smap"])) + 65536
        sig0 = "%s:%s%s" % (case["driver"], case["fs"], ":xdev" if case.get("xdev") else "")
        if not r1["same"]:
            res["viol"].append({"sig": sig0 + ":bytes", "what": "destination bytes differ from source; " + tag})
        bound = max(r1["src_data"], r1["src_alloc"]) + allowance
        if r1["dst_alloc"] > bound:
            res["viol"].append({"sig": sig0 + ":holes-materialised", "what": "destination allocates %d bytes, source data is %d (allocated %d), allowance %d; %s"
                                % (r1["dst_alloc"], r1["src_data"], r1["src_alloc"], allowance, tag)})
        # destination data inside a big source hole
        holes = []
        pos = 0
        for d, h in r1["smap"] + [[r1["size"], r1["size"]]]:
            if d - pos >= MIN_HOLE:
                holes.append((pos, d))
            pos = h
        for d, h in r1["dmap"]:
            for a, z in holes:
                if d >= a and h <= z and h > d:
                    res["viol"].append({"sig": sig0 + ":data-in-hole", "what": "destination has data [%d,%d) wholly inside the source hole [%d,%d); %s" % (d, h, a, z, tag)})
                    break
        r8 = copy_once(sb, case, 8, res) if len(r1["smap"]) <= 10 else None
        if r8 is not None:
            if abs(r8["dst_alloc"] - r1["dst_alloc"]) > allowance and r8["dst_alloc"] > r1["dst_alloc"]:
                res["viol"].append({"sig": sig0 + ":grows-with-holes", "what": "same data with holes x8: destination allocation grew from %d to %d bytes; %s"
                                    % (r1["dst_alloc"], r8["dst_alloc"], tag)})
            if not r8["same"]:
                res["viol"].append({"sig": sig0 + ":bytes", "what": "destination bytes differ from source (holes x8); " + tag})
            res["counters"]["scaled-pairs"] = 1
        segsz = max([l[0] for l in case["lens"] if isinstance(l, (tuple, list))] or [0])
        bsv = {"4096": 4096, "64KB": 65536, "1MB": 1000000, "16MB": 16000000, "np": 1 << 62}[case["block"]]
        res["evals"].append({"key": [case["driver"], case["fs"] + ("<-other" if case.get("xdev") else ""), "blk<seg" if bsv < segsz else "blk>=seg", "n=%s" % (case["nseg"] if case["nseg"] < 4 else "4-32" if case["nseg"] <= 32 else ">32"),
                                     "mostly-data:" + case["lens"][3] if case["lens"] and case["lens"][0] == "mostly-data" else case["lead"], case["trailing"], case["prior"]],
                             "sample": {"args": r1["args"], "fs": case["fs"], "apparent_size": r1["size"], "segments": r1["segs"][:6], "n_segments": len(r1["segs"]),
                                        "src_alloc": r1["src_alloc"], "dst_alloc": r1["dst_alloc"], "dst_alloc_holes_x8": r8["dst_alloc"] if r8 else None}})
        res["counters"]["exit0"] = 1
        res["counters"]["fs:" + case["fs"]] = 1
    return res
