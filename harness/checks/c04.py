"""C04 -- no silent failure: a failed step always yields a non-zero exit (fault enumeration)."""
import copy
import os
import random

from .. import core, tree, model, sites
from ..core import b, u

PROP = "C04"
LEVEL = "fault_enumeration"
RULE = ("for each mixed tree (0/1/multi-block files, sparse file, nested dirs, link, FIFO, overwrite needing a numbered "
        "backup, --fsync) and each driver: record a baseline trace under the supervisor, enumerate every sandbox-touching "
        "system call site (syscall, object, k-th occurrence) and run once per applicable errno with that single call failed "
        "(thorough: plus seeded pairs and pct schedules). Oracle: exit != 0 is fine; exit 0 requires the full snapshot "
        "comparison (kinds, bytes, link text, modes, mtimes, backup content) to pass, and an injected fsync failure must "
        "not exit 0; entries nothing maps onto (earlier backups among them) must be unchanged. xattr/ownership calls are tolerated by "
        "the statement: they are failed too, and exit 0 is then accepted, but everything else about the files (bytes, mode, mtime) is still demanded. A second family needs no injection: the step fails by itself because something of the wrong "
        "kind is in the way (file / link / fifo / socket where a directory belongs, directory where a file or link belongs), an entry "
        "is immutable (chattr +i), the run is unprivileged (setpriv to uid 65534: unreadable file, unlistable directory, read-only or "
        "unsearchable destination directory, unwritable destination file), or the destination is a tiny tmpfs of its own that fills "
        "up, runs out of inodes or is mounted read-only -- same exit-0 oracle. distinct_nontrivial = distinct (driver, syscall, object "
        "class, errno) among runs in which the planned fault was actually applied, plus distinct (driver, family, obstacles, outcome)")
ASSUMPTIONS = ["a fault planned for a site that does not occur in its run is counted as missed, not as held",
               "close() failures and calls on objects outside the sandbox are not injected"]


def F(p, size, seed, **kw):
    e = {"p": p, "k": "f", "size": size, "seed": seed, "segs": None}
    e.update(kw)
    return e


def mixed_tree(r, variant):
    spec = [{"p": "src", "k": "d"},
            F("src/a", 0, 1, mode=0o600), F("src/b", 1, 2, mode=0o755, mtime_ns=1_400_000_000_000_000_123),
            F("src/c", 200000, 3, mode=0o640, mtime_ns=-86_399_999_999_912, xattrs={"user.x": "1"}),      # (a time before 1970: legal, and awkward for unsigned arithmetic)
            {"p": "src/sp", "k": "f", "size": 3 << 20, "seed": 4, "segs": [[4096, 5000], [2 << 20, 70000]], "sync": True, "mode": 0o644,
             "mtime_ns": 1_200_000_000_000_000_001},
            {"p": "src/sub", "k": "d"}, F("src/sub/d", 5000, 5, mode=0o444, mtime_ns=1_100_000_000_500_000_000),
            {"p": "src/sub/deep", "k": "d"}, F("src/sub/deep/e", 70000, 6),
            {"p": "src/l", "k": "l", "target": "a"}, {"p": "src/ff", "k": "fifo", "mode": 0o600}]
    pre = [{"p": "dst", "k": "d"}, {"p": "dst/src", "k": "d"}, F("dst/src/b", 10, 7), F("dst/src/b.~1~", 3, 8)]
    args = ["-w", "2", "--block-size", "64KB", "--backup", "numbered", "--fsync", "-r", "src", "dst"]
    if variant == 1:
        spec = [{"p": "src", "k": "d"}] + tree.gen_tree(r, depth=2, fanout=4, kinds=("f", "f", "d", "l"), prefix="src",
                                                        nonutf8=False, max_entries=14, xattrs=True, modes=True, mtimes=True,
                                                        sizes=[0, 1, 100, 70000, 150000])
        pre = []
        args = ["-w", "3", "--block-size", "64KB", "-r", "src", "dst"]
    elif variant == 2:
        spec = [F("f", 150000, 9, mode=0o604, mtime_ns=1_000_000_000_000_000_777)]
        pre = [F("g", 99, 10), F("g.~3~", 7, 11)]
        args = ["-w", "2", "--block-size", "64KB", "--backup", "auto", "f", "g"]
    elif variant == 5:
        # dereference: links to a file and to a directory (canonicalize / follow-links paths)
        spec = [{"p": "src", "k": "d"}, F("src/a", 10, 31, mode=0o640), {"p": "src/d", "k": "d"}, F("src/d/x", 70000, 32), {"p": "out", "k": "d"}, F("out/y", 5, 33),
                {"p": "out/od", "k": "d"}, F("out/od/z", 9, 34), {"p": "src/lf", "k": "l", "target": "../out/y"}, {"p": "src/ld", "k": "l", "target": "../out/od"},
                {"p": "src/d/la", "k": "l", "target": "../a"}]
        pre = []
        args = ["-w", "2", "--block-size", "64KB", "-L", "-r", "src", "dst"]
    elif variant == 6:
        # gitignore parsing and filtering
        spec = [{"p": "src", "k": "d"}, F("src/.gitignore", 0, 41), F("src/keep", 100, 42), F("src/skip.o", 5, 43), {"p": "src/build", "k": "d"}, F("src/build/x", 5, 44),
                {"p": "src/sub", "k": "d"}, F("src/sub/keep2", 70000, 45)]
        spec[1] = {"p": "src/.gitignore", "k": "f", "size": 0, "seed": 41, "segs": None, "text": "*.o\n/build/\n"}
        pre = []
        args = ["-w", "2", "--block-size", "64KB", "--gitignore", "-r", "src", "dst"]
    elif variant == 7:
        # special files replacing existing entries (unlink + mknod), several sources, --target-directory
        spec = [{"p": "s1", "k": "d"}, {"p": "s1/ff", "k": "fifo", "mode": 0o600}, {"p": "s1/sk", "k": "sock", "mode": 0o644}, F("s1/a", 100, 51), F("single", 70000, 52),
                {"p": "lnk", "k": "l", "target": "single"}]
        pre = [{"p": "dst", "k": "d"}, {"p": "dst/s1", "k": "d"}, F("dst/s1/ff", 3, 53), {"p": "dst/s1/sk", "k": "fifo"}, F("dst/single", 5, 54)]
        args = ["-w", "2", "--block-size", "64KB", "-r", "--target-directory", "dst", "s1", "single", "lnk"]
    elif variant == 8:
        # sources selected by --glob: directories are listed by main before any copy starts
        spec = [{"p": "src", "k": "d"}] + [e for d in ("a", "b", "c") for e in ({"p": "src/" + d, "k": "d"}, F("src/%s/one-%s.txt" % (d, d), 100, 60 + ord(d)),
                                                                                 F("src/%s/two-%s.txt" % (d, d), 70000, 70 + ord(d)))]
        pre = [{"p": "dst", "k": "d"}]
        args = ["-w", "2", "--block-size", "64KB", "--glob", "src/*/*.txt", "dst"]
    elif variant == 9:
        spec = [{"p": "src", "k": "d"}, F("src/a", 100, 81, mode=0o640), F("src/m", 200000, 82, mode=0o600, mtime_ns=1_300_000_000_000_000_001),
                {"p": "src/sp", "k": "f", "size": 3 << 20, "seed": 83, "segs": [[4096, 5000], [2 << 20, 70000]], "sync": True}]
        pre = []
        args = ["-w", "2", "--block-size", "64KB", "-r", "src", "dst"]
    elif variant >= 3:
        spec = [{"p": "src", "k": "d"}] + tree.gen_tree(r, depth=3, fanout=3, kinds=("f", "f", "d", "l"), prefix="src",
                                                        nonutf8=False, max_entries=12, xattrs=True, modes=True, mtimes=True,
                                                        sizes=[0, 1, 4096, 70000, 300000])
        spec += [{"p": "src/sk", "k": "sock", "mode": 0o644}]
        pre = [{"p": "dst", "k": "d"}] if r.random() < 0.5 else []
        args = ["-w", str(r.choice([1, 2, 4])), "--block-size", r.choice(["64KB", "4096", "1MB"]), "-r", "src", "dst"]
        if r.random() < 0.5:
            args.insert(0, "--fsync")
    return spec, pre, args


def gen_cases(tier, seed):
    r = random.Random(seed * 15485863 + 4)
    variants = [0, 1, 2, 3, 5, 6, 7, 8, 9] if tier == "quick" else [0, 1, 2] + list(range(3, 14))
    for v in variants:
        spec, pre, args = mixed_tree(r, v)
        for driver in ("parfile", "parblock"):
            yield {"spec": spec, "pre": pre, "args": ["--driver", driver] + args, "driver": driver, "variant": v, "fs": "ext4",
                   "pairs": 0 if tier == "quick" else 150, "sseed": r.randrange(1 << 30), "tier": tier}
    # a thread cannot be created (EAGAIN from clone3: RLIMIT_NPROC, a pids limit): the k-th thread of the run, for every k there is
    for driver in ("parfile", "parblock"):
        for w in ((1, 2, 4) if tier == "quick" else (1, 2, 3, 4, 8)):
            for k in range(1, w + 5):
                spec, pre, args = mixed_tree(r, 0)
                yield {"threadfail": k, "spec": spec, "pre": pre, "args": ["--driver", driver, "-w", str(w)] + args[2:], "driver": driver, "variant": 0, "fs": "ext4",      # (args starts with -w N)
                       "workers": w}
    # a source whose length is not known beforehand (the kernel's own files: st_size 0, content read until end of file): the k-th
    # read of it fails -- or a write of the copy does
    for path in [p_ for p_ in ("/proc/kallsyms", "/proc/crypto") if os.path.exists(p_)]:
        for driver in ("parfile", "parblock"):
            for sysc, errno_ in (("read", 5), ("read", 13), ("write", 28), ("write", 5)):
                for k in ((1, 2, 3, 7) if tier == "quick" else (1, 2, 3, 4, 5, 7, 12, 30)):
                    yield {"unsizedfault": {"path": path, "sys": sysc, "errno": errno_, "nth": k}, "driver": driver, "fs": "ext4", "args": ["--driver", driver, "-w", "2", path, "copy"]}
    yield from natural_cases(r, tier)


NAT_SRC = [{"p": "src", "k": "d"}, F("src/a", 100, 201, mode=0o644), F("src/big", 200000, 202, mode=0o600), {"p": "src/e1", "k": "d"},
           {"p": "src/sub", "k": "d"}, F("src/sub/x", 5000, 203), {"p": "src/sub/e2", "k": "d"}, {"p": "src/sub/l", "k": "l", "target": "x"},
           {"p": "src/sub/deep", "k": "d"}, {"p": "src/sub/deep/e3", "k": "d"}, F("src/sub/deep/y", 70000, 204), {"p": "src/sub/deep/l2", "k": "l", "target": "../x"}]
NAT_DIRS = ["src/e1", "src/sub/e2", "src/sub/deep/e3", "src/sub", "src/sub/deep"]
NAT_FILES = ["src/a", "src/big", "src/sub/x", "src/sub/deep/y"]
NAT_LINKS = ["src/sub/l", "src/sub/deep/l2"]


def natural_cases(r, tier):
    """Steps that fail without any injection: something of the wrong kind, an immutable entry, or missing privilege is in the way."""
    for i in range(90 if tier == "quick" else 2400):
        driver = ["parfile", "parblock"][i % 2]
        fam = ["kinds", "kinds", "immutable", "unpriv", "mount"][(i // 2) % 5]
        pre = [{"p": "dst", "k": "d"}, {"p": "dst/src", "k": "d"}]
        obst, imm, prep = [], [], []

        def need_parents(path):
            par = os.path.dirname(path)
            chain = []
            while par and par != "dst/src":
                chain.append(par)
                par = os.path.dirname(par)
            for d in reversed(chain):
                if not any(e["p"] == d for e in pre):
                    pre.append({"p": d, "k": "d"})
        if fam == "kinds":
            for _ in range(r.choice([1, 1, 2])):
                cls = r.choice(["dir", "dir", "file", "link"])
                sp = r.choice({"dir": NAT_DIRS, "file": NAT_FILES, "link": NAT_LINKS}[cls])
                dp = "dst/" + sp
                if any(e["p"] == dp or e["p"].startswith(dp + "/") or dp.startswith(e["p"] + "/") and e["k"] != "d" for e in pre):
                    continue
                need_parents(dp)
                if any(e["p"] == dp for e in pre):
                    continue
                what = r.choice({"dir": ["file", "dangling-link", "fifo", "link-to-file", "sock"], "file": ["dir", "dir-nonempty"], "link": ["dir", "file", "fifo"]}[cls])
                if what == "file":
                    pre.append(F(dp, 12, 300 + i))
                elif what == "dangling-link":
                    pre.append({"p": dp, "k": "l", "target": "no/where"})
                elif what == "link-to-file":
                    pre += [F("dst/keep-target", 9, 301)] if not any(e["p"] == "dst/keep-target" for e in pre) else []
                    pre.append({"p": dp, "k": "l", "target": "@ROOT@/dst/keep-target"})
                elif what in ("fifo", "sock"):
                    pre.append({"p": dp, "k": what})
                elif what == "dir":
                    pre.append({"p": dp, "k": "d"})
                else:
                    pre += [{"p": dp, "k": "d"}, F(dp + "/inner", 3, 302)]
                obst.append("%s-where-%s" % (what, cls))
        elif fam == "immutable":
            what = r.choice(["file", "file", "dir-needs-children", "backup-source"])
            if what == "file":
                t = r.choice(NAT_FILES)
                need_parents("dst/" + t)
                pre.append(F("dst/" + t, r.choice([0, 50, 300000]), 310))
                imm.append("dst/" + t)
            elif what == "dir-needs-children":
                t = r.choice(["src/sub", "src/sub/deep"])
                need_parents("dst/" + t + "/z")
                imm.append("dst/" + t)
            else:
                pre += [F("dst/src/a", 40, 311)]
                imm.append("dst/src/a")
            obst.append("immutable-" + what)
        elif fam == "mount":
            # the destination directory is a small file system of its own: it fills up, runs out of inodes, or is read-only
            what = r.choice(["full", "full", "inodes", "readonly"])
            if what == "full":
                mopts = "size=%s" % r.choice(["64k", "128k", "256k", "300k", "4m"])
            elif what == "inodes":
                mopts = "size=4m,nr_inodes=%d" % r.choice([3, 5, 8, 12, 60])
            else:
                mopts = "size=4m"
                for t in r.sample(NAT_FILES, 2):
                    need_parents("dst/" + t)
                    pre.append(F("dst/" + t, 33, 330))
            if r.random() < 0.5 and what != "inodes":
                need_parents("dst/src/sub/deep/z")
            obst.append("fs-" + what + ":" + mopts)
        else:
            what = r.choice(["unreadable-file", "unlistable-dir", "readonly-dest-dir", "unwritable-dest-file", "unsearchable-dest-dir"])
            if what == "unreadable-file":
                prep.append(["chmod", r.choice(NAT_FILES), 0])
            elif what == "unlistable-dir":
                prep.append(["chmod", r.choice(["src/sub", "src/sub/deep"]), r.choice([0, 0o300])])
            elif what == "readonly-dest-dir":
                t = r.choice(["src/sub", "src/sub/deep"])
                need_parents("dst/" + t + "/z")
                prep.append(["rootown", "dst/" + t, 0o555])
            elif what == "unsearchable-dest-dir":
                t = r.choice(["src/sub", "src/sub/deep"])
                need_parents("dst/" + t + "/z")
                prep.append(["rootown", "dst/" + t, 0o600])
            else:
                t = r.choice(NAT_FILES)
                need_parents("dst/" + t)
                pre.append(F("dst/" + t, 77, 320))
                prep.append(["rootown", "dst/" + t, 0o444])
            obst.append(what)
        if not obst:
            continue
        args = ["--driver", driver, "-w", str(r.choice([0, 1, 2, 4])), "--block-size", "64KB"]
        args += r.choice([[], [], ["--fsync"], ["--no-perms"], ["--no-timestamps"], ["--reflink", "never"], ["--no-progress"], ["-v"], ["--gitignore"]])
        if fam == "immutable" and obst[0] == "immutable-backup-source":
            args += ["--backup", "numbered"]
        yield {"mount": mopts if fam == "mount" else None, "natural": fam, "obstacles": sorted(obst), "spec": NAT_SRC, "pre": pre, "immutable": imm, "prep": prep, "driver": driver, "variant": "natural", "fs": "ext4",
               "args": args + ["-r", "src", "dst"]}


def run_natural(case):
    res = {"evals": [], "viol": [], "inconc": [], "counters": {}}
    with core.Sandbox("ext4", "c04n") as sb:
        root = sb.root
        tree.materialize(root, case["spec"])
        mp = None
        if case.get("mount"):
            mp = os.path.join(root, "dst")
            os.mkdir(mp)
            if not core.mount_tmpfs(mp, case["mount"]):
                res["inconc"].append("mount-unavailable")
                return res
        argv = core.xcp_argv(case["args"])
        try:
            tree.materialize(root, [dict(e, target=e["target"].replace("@ROOT@", root)) if "target" in e else e for e in case["pre"]])
            if mp and "fs-readonly" in case["obstacles"][0] and not core.remount_ro(mp):
                res["inconc"].append("remount-ro-unavailable")
                return res
            if case["natural"] == "unpriv":
                for dp, dn, fn in os.walk(b(root)):
                    for n in dn + fn + [b"."]:
                        os.lchown(os.path.join(dp, n), 65534, 65534)
                for op, path, mode in case["prep"]:
                    q = os.path.join(b(root), b(path))
                    if op == "rootown":
                        os.chown(q, 0, 0)
                    os.chmod(q, mode)
                argv = ["setpriv", "--reuid", "65534", "--regid", "65534", "--clear-groups"] + argv
            for path in case["immutable"]:
                if not core.set_immutable(os.path.join(b(root), b(path)), True):
                    res["inconc"].append("immutable-flag-unavailable")
                    return res
            pre = tree.snapshot(root)
            run = core.run_plain(argv, root)
            post = tree.snapshot(root)
        finally:
            for path in case["immutable"]:
                core.set_immutable(os.path.join(b(root), b(path)), False)
            if mp:
                core.umount(mp)
        if run.verdict != "exited":
            res["inconc"].append("run-" + run.verdict)
            return res
        if "setpriv" in run.stderr and "xcp" not in run.stderr:
            res["inconc"].append("setpriv-failed")
            return res
        outcome = "exit0" if run.exit0 else "nonzero"
        if run.exit0:
            mapping, _ = model.map_sources(pre, root, ["src"], "dst")
            bad = model.check_mirror(pre, post, mapping)
            mapped = {m["dst"] for m in mapping}
            for p_, a in sorted(pre.items()):
                if p_ in mapped or a["k"] == "d" or not p_ or p_.startswith("src"):
                    continue
                c = post.get(p_)
                if c is None or any(a.get(f) != c.get(f) for f in ("k", "size", "sha", "link")):
                    bad.append(("bystander-changed", "%r (%s, nothing maps onto it) was %s" % (p_, a["k"], "removed" if c is None else "replaced or modified")))
            for frag, msg in bad[:3]:
                res["viol"].append({"sig": "%s:natural:%s:%s:%s" % (case["driver"], case["natural"], "+".join(case["obstacles"]), frag),
                                    "what": "exit 0 although a step had to fail (%s: %s): %s; args=%s" % (case["natural"], ", ".join(case["obstacles"]), msg, " ".join(case["args"]))})
        res["counters"]["natural-" + outcome] = 1
        res["counters"]["natural:" + case["natural"]] = 1
        res["evals"].append({"key": [case["driver"], "natural", case["natural"], case["obstacles"], outcome],
                             "sample": {"args": case["args"], "obstacles": case["obstacles"], "exit": run.status, "first_error": ([l for l in run.stderr.splitlines() if "rror" in l or "denied" in l] or [""])[0].replace(root, "")[-200:]}})
    return res


def expand_case(case):
    if case.get("natural") or case.get("threadfail") or case.get("unsizedfault"):
        return [case]
    with core.Sandbox(case["fs"], "c04") as sb:
        root = sb.root
        tree.materialize(root, case["spec"])
        tree.materialize(root, case["pre"])
        always = [{"id": "nocfr", "sys": "copy_file_range", "under": root + "/", "action": "fault", "errno": 38}] if case["variant"] == 9 else []
        base = core.run_xcp(sb, case["args"], {"log_mode": "full", "rules": always})
        if not base.exit0:
            return {"inconc": ["baseline-failed"], "trace": "baseline failed: %s %s" % (case["args"], base.stderr[-300:])}
        # (calls whose failure the statement tolerates -- xattr and ownership calls -- are failed too: the warning is fine, but
        #  everything *else* about the file must still be right on exit 0)
        allsites = [s_ for s_ in sites.enumerate_sites(base.events, root, include_tolerated=True) if not (case["variant"] == 9 and s_["sys"] == "copy_file_range") and s_["sys"] != "close"]
        out = []
        r = random.Random(case["sseed"])
        for s in allsites:
            rel = dict(s)
            rel["path"] = "@ROOT@" + s["path"][len(root):]
            for en in sites.ERRNOS.get(s["sys"], []):
                c = {k: case[k] for k in ("spec", "pre", "args", "driver", "variant", "fs")}
                c["faults"] = [{"site": rel, "errno": en}]
                c["sched"] = "os"
                out.append(c)
        for _ in range(case["pairs"]):
            s1, s2 = r.sample(allsites, 2)
            c = {k: case[k] for k in ("spec", "pre", "args", "driver", "variant", "fs")}
            c["faults"] = []
            for s in (s1, s2):
                rel = dict(s)
                rel["path"] = "@ROOT@" + s["path"][len(root):]
                c["faults"].append({"site": rel, "errno": r.choice(sites.ERRNOS[s["sys"]])})
            c["sched"] = r.choice(["os", "pct"])
            c["sseed"] = r.randrange(1 << 30)
            out.append(c)
        return out


def obj_class(path, root, pre, post):
    rel = path[len(root):].lstrip("/")
    side = "dst" if rel == "dst" or rel.startswith("dst/") or rel == "g" else "src"
    rec = pre.get(rel) or post.get(rel)
    return "%s-%s" % (side, rec["k"] if rec else "new")


def judge(case, root, pre, post, run, res, prop_tag="", tolerated=None, tolerated_paths=()):
    """Shared exit-0 oracle (also used by C07's fault family)."""
    v = case.get("variant")
    if v == 7:
        mapping, _ = model.map_sources(pre, root, ["s1", "single", "lnk"], "dst")
    elif v == 8:
        mapping, _ = model.map_sources(pre, root, sorted(p_ for p_ in pre if p_.endswith(".txt") and p_.startswith("src/")), "dst")
    else:
        src = [a for a in case["args"] if a in ("src", "f")][0]
        dst = case["args"][-1]
        mapping, _ = model.map_sources(pre, root, [src], dst)
    if v == 5:
        # -L: links become what they point to
        exp = {"dst": "d", "dst/a": "f", "dst/d": "d", "dst/d/x": "f", "dst/lf": "f", "dst/ld": "d", "dst/ld/z": "f", "dst/d/la": "f"}
        srcof = {"dst/a": "src/a", "dst/d/x": "src/d/x", "dst/lf": "out/y", "dst/ld/z": "out/od/z", "dst/d/la": "src/a"}
        bad = []
        for p_, k in exp.items():
            d = post.get(p_)
            if d is None or d["k"] != k:
                bad.append(("deref-missing:" + k, "%s should be %s, is %s" % (p_, k, d["k"] if d else "absent")))
            elif k == "f" and d.get("sha") != pre[srcof[p_]]["sha"]:
                bad.append(("bytes", "%s differs from %s" % (p_, srcof[p_])))
        return bad
    excluded = []
    if v == 6:
        excluded = [m for m in mapping if (m["src"].endswith(".o") or m["src"] == "src/build" or m["src"].startswith("src/build/"))]
        mapping = [m for m in mapping if m not in excluded]
    bad = model.check_mirror(pre, post, mapping)
    # a correct destination also lacks what the ignore file excludes (a filter that silently switched itself off is a failed step)
    bad += [("excluded-entry-copied", "%s is excluded by src/.gitignore but exists in the destination" % m["dst"]) for m in excluded if m["dst"] in post]
    # a failed xattr call may cost xattrs (of that file: which one is not tracked, so xattrs are then not compared at all);
    # permissions, timestamps and contents are demanded regardless
    # (a failed attribute call excuses the attributes of the file it was made on, not those of the files copied after it)
    exempt = tuple(tolerated_paths) if tolerated in ("flistxattr", "fgetxattr", "fsetxattr") else ()
    bad += model.check_meta(pre, post, mapping, xattrs=not (tolerated in ("flistxattr", "fgetxattr", "fsetxattr") and not exempt), xattr_exempt=exempt)
    bad += [f for f in model.check_nodes(pre, post, mapping) if f[0] == "rdev" and False]
    # numbered / auto backups: the old content must still exist
    if "--backup" in case["args"]:
        for m in mapping:
            old = pre.get(m["dst"])
            if old and old["k"] == "f" and m["rec"]["k"] == "f":
                names = [p for p in post if p.startswith(m["dst"] + ".~") and post[p].get("sha") == old["sha"]]
                had_backup = any(p.startswith(m["dst"] + ".~") for p in pre)
                mode = case["args"][case["args"].index("--backup") + 1]
                if (mode == "numbered" or (mode == "auto" and had_backup)) and not names:
                    bad.append(("backup-lost", "old content of %s is in no backup file" % m["dst"]))
    # entries nothing maps onto (earlier backups among them) are part of a correct destination: they must be as before
    mapped = {m["dst"] for m in mapping}
    for p_, a in sorted(pre.items()):
        if p_ in mapped or a["k"] == "d" or not p_:
            continue
        c = post.get(p_)
        if c is None or any(a.get(f) != c.get(f) for f in ("k", "size", "sha", "link")):
            bad.append(("bystander-changed", "%r (%s, nothing maps onto it) was %s" % (p_, a["k"], "removed" if c is None else "replaced or modified")))
    return bad


def run_threadfail(case):
    res = {"evals": [], "viol": [], "inconc": [], "counters": {}}
    with core.Sandbox(case["fs"], "c04") as sb:
        root = sb.root
        tree.materialize(root, case["spec"])
        tree.materialize(root, case["pre"])
        pre = tree.snapshot(root)
        run = core.run_xcp(sb, case["args"], {"log_mode": "none", "rules": [{"id": "t", "sys": "clone3", "action": "fault", "errno": 11, "nth": case["threadfail"]}]})
        if run.verdict != "exited":
            res["inconc"].append("run-" + run.verdict)
            return res
        if not run.rule("t")["applied"]:
            res["counters"]["site-missed"] = 1
            return res
        res["counters"]["fault-applied"] = 1
        res["counters"]["sys:clone3"] = 1
        if run.exit0:
            res["counters"]["exit0-after-fault"] = 1
            post = tree.snapshot(root)
            for frag, msg in judge(case, root, pre, post, run, res):
                res["viol"].append({"sig": "%s:clone3:thread:%s" % (case["driver"], frag), "what": "exit 0 although the creation of thread #%d failed with EAGAIN: %s; %s"
                                    % (case["threadfail"], msg, " ".join(case["args"]))})
        else:
            res["counters"]["nonzero-after-fault"] = 1
        res["evals"].append({"key": [case["driver"], "clone3", "thread-%d-of-w%d" % (case["threadfail"], case["workers"]), 11, 1],
                             "sample": {"args": case["args"], "thread": case["threadfail"], "exit": run.status}})
    return res


def run_unsizedfault(case):
    res = {"evals": [], "viol": [], "inconc": [], "counters": {}}
    uf = case["unsizedfault"]
    with core.Sandbox(case["fs"], "c04") as sb:
        root = sb.root
        where = {"path": uf["path"]} if uf["sys"] == "read" else {"under": root + "/"}
        run = core.run_xcp(sb, case["args"], {"log_mode": "none", "rules": [dict({"id": "u", "sys": uf["sys"], "action": "fault", "errno": uf["errno"], "nth": uf["nth"]}, **where)]})
        if run.verdict != "exited":
            res["inconc"].append("run-" + run.verdict)
            return res
        if not run.rule("u")["applied"]:
            res["counters"]["site-missed"] = 1
            return res
        res["counters"]["fault-applied"] = 1
        res["counters"]["sys:" + uf["sys"]] = 1
        res["counters"]["unsized-source-faults"] = 1
        if run.exit0:
            res["counters"]["exit0-after-fault"] = 1
            try:
                want = open(uf["path"], "rb").read()
                got = open(os.path.join(root, "copy"), "rb").read()
            except OSError as e:
                want, got = b"", None
            # (these files are generated on every read: the length and the first and last kilobyte are compared)
            if got is None or len(got) != len(want) or got[:1024] != want[:1024] or got[-1024:] != want[-1024:]:
                res["viol"].append({"sig": "%s:%s:unsized-source:incomplete" % (case["driver"], uf["sys"]), "what": "exit 0 although %s #%d on the copy of %s failed with errno %d: the copy has %s bytes, the source %d; %s"
                                    % (uf["sys"], uf["nth"], uf["path"], uf["errno"], "no" if got is None else len(got), len(want), " ".join(case["args"]))})
        else:
            res["counters"]["nonzero-after-fault"] = 1
        res["evals"].append({"key": [case["driver"], uf["sys"], "unsized-source", uf["errno"], uf["nth"]], "sample": {"args": case["args"], "fault": uf, "exit": run.status}})
    return res


def run_case(case):
    if case.get("natural"):
        return run_natural(case)
    if case.get("unsizedfault"):
        return run_unsizedfault(case)
    if case.get("threadfail"):
        return run_threadfail(case)
    res = {"evals": [], "viol": [], "inconc": [], "counters": {}}
    with core.Sandbox(case["fs"], "c04") as sb:
        root = sb.root
        tree.materialize(root, case["spec"])
        tree.materialize(root, case["pre"])
        pre = tree.snapshot(root)
        rules = []
        for i, f in enumerate(case["faults"]):
            s = dict(f["site"])
            s["path"] = s["path"].replace("@ROOT@", root)
            rules.append(sites.site_rule(s, "f%d" % i, action="fault", errno=f["errno"]))
        plan = {"log_mode": "none", "rules": rules + ([{"id": "nocfr", "sys": "copy_file_range", "under": root + "/", "action": "fault", "errno": 38}] if case.get("variant") == 9 else [])}
        if case.get("sched") == "pct":
            plan.update({"sched": "pct", "sched_seed": case["sseed"], "pct_horizon": 300})
        run = core.run_xcp(sb, case["args"], plan)
        if run.verdict != "exited":
            res["inconc"].append("run-" + run.verdict)
            return res
        applied = [i for i in range(len(rules)) if run.rule("f%d" % i)["applied"] > 0]
        if not applied:
            res["counters"]["site-missed"] = 1
            return res
        post = tree.snapshot(root)
        f0 = case["faults"][applied[0]]
        s0 = f0["site"]
        cls = obj_class(s0["path"].replace("@ROOT@", root), root, pre, post)
        res["counters"]["fault-applied"] = 1
        res["counters"]["sys:" + s0["sys"]] = 1
        if run.exit0:
            res["counters"]["exit0-after-fault"] = 1
            # (with two faults, either of them may be a call whose failure the statement tolerates)
            tol = [case["faults"][i]["site"]["sys"] for i in applied if case["faults"][i]["site"]["sys"] in sites.TOLERATED]
            tpaths = [case["faults"][i]["site"]["path"].replace("@ROOT@", "").lstrip("/") for i in applied if case["faults"][i]["site"]["sys"] in sites.TOLERATED]
            bad = judge(case, root, pre, post, run, res, tolerated=(tol[0] if s0["sys"] not in sites.TOLERATED else s0["sys"]) if tol else None, tolerated_paths=tpaths)
            if s0["sys"] in sites.TOLERATED:
                res["counters"]["tolerated-call-failed-exit0"] = 1
            if s0["sys"] in ("fsync", "fdatasync"):
                bad.append(("fsync-ignored", "requested fsync of %s failed with errno %d" % (s0["path"], f0["errno"])))
            for frag, msg in bad:
                sig = "%s:%s:%s:%s" % (case["driver"], s0["sys"], cls, frag)
                res["viol"].append({"sig": sig, "what": "exit 0 although %s#%d on %s was failed with errno %d (%s): %s"
                                    % (s0["sys"], s0["nth"], s0["path"], f0["errno"], s0.get("role"), msg)})
        else:
            res["counters"]["nonzero-after-fault"] = 1
        res["evals"].append({"key": [case["driver"], s0["sys"], cls, f0["errno"], len(case["faults"])],
                             "sample": {"args": case["args"], "faults": case["faults"], "exit": run.status, "applied": applied}})
    return res
