"""C17 -- --gitignore copies exactly the entries the root .gitignore does not exclude."""
import os
import random
import subprocess

from .. import core, tree, model
from ..core import b, u

PROP = "C17"
LEVEL = "exploration"
RULE = ("seeded trees (hidden files, nested directories, symlinks to files and to directories, names shared between files and "
        "directories at different depths, entries named like the source itself or beginning with its name) x .gitignore files generated from the grammar {literal names, *, ?, **/ prefix, trailing / "
        "(directory-only), leading / (anchored), ! negation, comments, blank lines} with patterns drawn from names that are present; "
        "both drivers; with and without --gitignore. Oracle: git itself -- `git check-ignore --no-index --stdin -z` with a detached "
        "empty git-dir, HOME pointing to an empty directory and system/global config disabled, so only <source>/.gitignore speaks; the "
        "set of relative paths in the destination must equal the set git does not ignore (an ignored directory hides everything below "
        "it); without the option nothing may be filtered. distinct_nontrivial = distinct (driver, set of pattern forms used, whether "
        "anything was excluded, whether a symlink / hidden entry / directory was decided)")
ASSUMPTIONS = ["git 2.39's check-ignore is the reference for 'git's pattern semantics'",
               "only patterns from the grammar in the property's quantifier are generated (no character classes, escapes, trailing spaces)"]

NAMES = ["bad\xff", "caf\xe9", "Build", "A", "a", "b", "build", "target", "foo", "foo.txt", "bar.o", "lib.o", "main.c", "notes", "tmp", ".hidden", ".cache", "x1", "x2", "doc", "out", "src", "srcx", "src2", "été".encode("utf-8").decode("latin-1")]


def gen_tree(r, top="src"):
    spec = [{"p": top, "k": "d"}]
    dirs, files, links = [top], [], []

    def rec(d, depth):
        used = set()
        for _ in range(r.randint(1, 5)):
            nm = r.choice(NAMES)
            if nm in used:
                continue
            used.add(nm)
            p = d + "/" + nm
            k = r.choice(["f", "f", "f", "d", "d", "l"]) if depth < 3 else r.choice(["f", "f", "l"])
            if k == "f":
                spec.append({"p": p, "k": "f", "size": r.choice([0, 3, 100]), "seed": r.randrange(1, 1 << 30), "segs": None})
                files.append(p)
            elif k == "d":
                spec.append({"p": p, "k": "d"})
                dirs.append(p)
                rec(p, depth + 1)
            else:
                tgt = r.choice(dirs + files) if (dirs + files) else top
                spec.append({"p": p, "k": "l", "target": os.path.relpath(tgt, d) if r.random() < 0.8 else "dangling"})
                links.append(p)
    rec(top, 0)
    return spec


def gen_gitignore(r, spec):
    top = spec[0]["p"]
    names = sorted({os.path.basename(e["p"]) for e in spec if e["p"] != top})
    paths = sorted(e["p"][len(top) + 1:] for e in spec if e["p"].startswith(top + "/"))
    lines, forms = [], set()
    for _ in range(r.randint(1, 7)):
        form = r.choice(["literal", "literal", "star", "qmark", "dstar", "dironly", "anchored", "neg", "comment", "blank", "path", "ext"])
        nm = r.choice(names) if names else "a"
        # names are latin-1 views of UTF-8 bytes: cut patterns on character boundaries, never inside a multi-byte character
        try:
            ch = nm.encode("latin-1").decode("utf-8")
        except UnicodeDecodeError:
            ch = nm
        enc = lambda t: t.encode("utf-8").decode("latin-1")
        if form == "literal":
            pat = nm
        elif form == "star":
            pat = r.choice([enc(ch[:1]) + "*", "*" + enc(ch[-1:]), "*"]) if len(ch) > 1 else "*"
        elif form == "ext":
            pat = "*." + r.choice(["o", "txt", "c"])
        elif form == "qmark":
            pat = (enc(ch[:-1]) + "?") if len(ch) > 1 else "?"
        elif form == "dstar":
            pat = "**/" + nm
        elif form == "dironly":
            pat = nm + "/"
        elif form == "anchored":
            pat = "/" + (r.choice(paths) if paths and r.random() < 0.5 else nm)
        elif form == "path":
            pat = r.choice(paths) if paths else nm
        elif form == "neg":
            pat = "!" + r.choice([nm, nm + "/", "/" + nm, "**/" + nm, "*." + r.choice(["o", "txt"])])
        elif form == "comment":
            pat = "# " + nm
        else:
            pat = ""
        if form in ("dironly", "anchored", "dstar") and r.random() < 0.2 and not pat.endswith("/"):
            pat += "/"
            forms.add("dironly")
        forms.add(form)
        lines.append(pat)
    return "\n".join(lines) + ("\n" if r.random() < 0.8 else ""), sorted(forms)


def gen_cases(tier, seed):
    n = 1200 if tier == "quick" else 12000
    r = random.Random(seed * 104395303 + 17)
    for i in range(n):
        driver = ["parfile", "parblock"][i % 2]
        spec = gen_tree(r)
        gi, forms = gen_gitignore(r, spec)
        if any(e["p"] == "src/.gitignore" for e in spec):
            continue
        second = None
        if r.random() < 0.25:
            # a second source with its own (or no) .gitignore: each source is judged by its own root file only
            spec2 = gen_tree(r, "src2")
            gi2, _ = gen_gitignore(r, spec2)
            second = {"spec": spec2, "gitignore": gi2 if r.random() < 0.7 else None}
        if second is None and not any(e["k"] == "l" for e in spec) and r.random() < 0.5:
            # the source directory named through a symbolic link, with -L (the tree itself has no links, so -L changes nothing else):
            # the ignore file that counts is the one of the directory that is walked
            yield {"second": None, "spec": spec + [{"p": "lsrc", "k": "l", "target": r.choice(["src", "@ROOT@/src"])}], "gitignore": gi, "forms": forms, "driver": driver, "use": r.random() < 0.9,
                   "fs": "ext4", "extra": ["-L"], "srcarg": r.choice(["lsrc", "lsrc", "lsrc/", "./lsrc"]), "w": r.choice([0, 1, 2, 4])}
            continue
        r3 = random.Random(seed * 977 + i)
        if second is None and gi is not None and r3.random() < 0.12:
            # the copy goes to a place inside the source that the root file excludes with an anchored pattern (`/zz-out/`, last line), and
            # the tree has an entry of the same name further down, which that pattern does not cover
            dirs_ = [e["p"] for e in spec if e["k"] == "d" and e["p"] != "src"]
            d_ = r3.choice(dirs_) if dirs_ else "src/keepdir"
            spec = spec + ([] if dirs_ else [{"p": d_, "k": "d"}]) + [{"p": d_ + "/zz-out", "k": "d"}, {"p": d_ + "/zz-out/dump", "k": "f", "size": 9, "seed": 5, "segs": None}]
            yield {"inside": True, "second": None, "spec": spec, "gitignore": gi.rstrip("\n") + "\n/zz-out/\n", "forms": forms, "driver": driver, "use": True, "fs": "ext4",
                   "extra": [], "srcarg": r3.choice(["src", "src/", "./src", "@ROOT@/src"]), "w": r3.choice([0, 1, 2, 4])}
            continue
        yield {"second": second, "spec": spec, "gitignore": gi, "forms": forms, "driver": driver, "use": r.random() < 0.85, "fs": "ext4",
               "extra": r.choice([[], [], [], ["--fsync"], ["--no-perms"], ["--no-progress"], ["--reflink", "never"], ["--backup", "auto"]]),
               "srcarg": r.choice(["src", "src", "src/", "./src", "@ROOT@/src"]), "w": r.choice([0, 1, 2, 4])}


def git_ignored(sb, srcdir, relpaths):
    gd = os.path.join(sb.aux, "g.git")
    home = os.path.join(sb.aux, "home")
    env = {"PATH": os.environ.get("PATH", "/usr/bin:/bin"), "HOME": home, "GIT_CONFIG_NOSYSTEM": "1", "GIT_CONFIG_GLOBAL": "/dev/null",
           "XDG_CONFIG_HOME": home, "LC_ALL": "C"}
    if not os.path.isdir(gd):
        os.makedirs(home, exist_ok=True)
        r = subprocess.run(["git", "init", "-q", "--bare", gd], env=env, capture_output=True)
        if r.returncode != 0:
            raise core.HarnessError("git init failed: " + r.stderr.decode())
    inp = b"\0".join(b(p) for p in relpaths) + b"\0"
    r = subprocess.run(["git", "--git-dir=" + gd, "--work-tree=" + u(srcdir), "check-ignore", "--no-index", "-z", "--stdin"], cwd=srcdir, env=env,
                       input=inp, capture_output=True)
    if r.returncode not in (0, 1):
        raise core.HarnessError("git check-ignore failed: " + r.stderr.decode("latin-1"))
    return {u(x) for x in r.stdout.split(b"\0") if x}


def run_case(case):
    res = {"evals": [], "viol": [], "inconc": [], "counters": {}}
    with core.Sandbox(case["fs"], "c17") as sb:
        root = sb.root
        sources = [("src", case["spec"], case["gitignore"])]
        if case.get("second"):
            sources.append(("src2", case["second"]["spec"], case["second"]["gitignore"]))
        expected_all, pre_all, ignored_all = {}, {}, {}
        for top, spec, gi in sources:
            tree.materialize(root, spec)
            srcdir = os.path.join(b(root), b(top))
            if gi is not None:
                with open(os.path.join(srcdir, b".gitignore"), "wb") as f:
                    f.write(b(gi))
            pre = tree.snapshot(srcdir, content=False, include_root=False)
            rels = sorted(pre)
            ignored = git_ignored(sb, srcdir, rels) if (case["use"] and gi is not None) else set()
            expected = set()
            for p in rels:
                parts = p.split("/")
                if any("/".join(parts[:k]) in ignored for k in range(1, len(parts) + 1)):
                    continue
                expected.add(p)
            expected_all[top], pre_all[top], ignored_all[top] = expected, pre, ignored
        two = len(sources) > 1
        if two:
            os.mkdir(os.path.join(b(root), b"dst"))
        args = ["--driver", case["driver"], "-w", str(case.get("w", 2)), "-r"] + (["--gitignore"] if case["use"] else []) + case.get("extra", [])
        args += [case.get("srcarg", "src")] + (["src2"] if two else []) + ["src/zz-out" if case.get("inside") else "dst"]
        if case.get("inside"):
            res["counters"]["destination-inside-the-source-runs"] = 1
        args = [a.replace("@ROOT@", root) for a in args]
        # the user's own git configuration must not speak: xcp runs with a HOME that holds global excludes naming entries of
        # this very tree (through ~/.config/git/ignore and through core.excludesFile), which only the root .gitignore may exclude
        dhome = os.path.join(sb.aux, "decoy-home")
        os.makedirs(os.path.join(dhome, ".config", "git"), exist_ok=True)
        present = sorted({os.path.basename(e["p"]) for e in case["spec"] if e["p"] != "src"})[:6]
        with open(os.path.join(dhome, ".config", "git", "ignore"), "wb") as f:
            f.write(b("\n".join(present[:3] + ["*.txt", ".hidden"]) + "\n"))
        with open(os.path.join(dhome, "excl"), "wb") as f:
            f.write(b("\n".join(present[3:] + ["*.o", "notes"]) + "\n"))
        with open(os.path.join(dhome, ".gitconfig"), "w") as f:
            f.write("[core]\n\texcludesFile = %s\n" % os.path.join(dhome, "excl"))
        run = core.run_plain(["env", "HOME=" + dhome, "XDG_CONFIG_HOME=" + os.path.join(dhome, ".config")] + core.xcp_argv(args), root)
        if run.verdict != "exited":
            res["inconc"].append("run-" + run.verdict)
            return res
        if not run.exit0:
            res["counters"]["nonzero-exit"] = 1
            return res
        for top, spec, gi in sources:
            expected, pre, ignored = expected_all[top], pre_all[top], ignored_all[top]
            rels = sorted(pre)
            dpath = os.path.join(b(root), b"dst", b(top)) if two else os.path.join(b(root), b"src/zz-out" if case.get("inside") else b"dst")
            post = tree.snapshot(dpath, content=False, include_root=False)
            got = set(post)
            tag = "driver=%s source=%s%s gitignore=%r" % (case["driver"], top, " (second of two)" if two and top == "src2" else "", gi)
            srcdir = os.path.join(b(root), b(top))
            for p in sorted(expected - got)[:3]:
                kind = pre[p]["k"]
                lk = ""
                if kind == "l":
                    lk = "-to-dir" if os.path.isdir(os.path.join(srcdir, b(p))) else "-to-other"
                res["viol"].append({"sig": "any:wrongly-excluded:%s%s" % (kind, lk),
                                    "what": "%r (%s%s) is not ignored by git but was not copied; %s" % (p, kind, lk, tag)})
            for p in sorted(got - expected)[:3]:
                kind = pre[p]["k"] if p in pre else "?"
                res["viol"].append({"sig": "any:wrongly-copied:%s" % kind, "what": "%r (%s) is ignored by git (or lies under an ignored directory) but was copied; %s" % (p, kind, tag)})
            if not case["use"] and got != set(rels):
                res["viol"].append({"sig": "any:filtered-without-option", "what": "without --gitignore the destination lacks %s; %s" % (sorted(set(rels) - got)[:3], tag)})
            res["counters"]["paths-decided"] = res["counters"].get("paths-decided", 0) + len(rels)
            res["counters"]["paths-git-ignored"] = res["counters"].get("paths-git-ignored", 0) + len(set(rels) - expected)
        pre, ignored = pre_all["src"], ignored_all["src"]
        decided = {pre[p]["k"] for p in pre}
        res["evals"].append({"key": [case["driver"], case["forms"], bool(ignored), "l" in decided, any(os.path.basename(p).startswith(".") for p in ignored), case["use"], two],
                             "sample": {"gitignore": case["gitignore"], "paths": sorted(pre)[:12], "git_ignored": sorted(ignored)[:8], "args": args,
                                        "second_source_gitignore": case["second"]["gitignore"] if two else None}})
        res["counters"]["exit0"] = 1
        if two:
            res["counters"]["two-source-runs"] = 1
    return res
