"""C13 -- --dereference copies what links point to, or fails; never leaves links or gaps."""
import os
import random
import stat

from .. import core, tree, model
from ..core import b, u
from .c02 import subst

PROP = "C13"
LEVEL = "exploration"
RULE = ("seeded trees containing links to files, to directories with non-trivial contents (inside and outside the source), to links "
        "(chains of length 1..8 and one of 38), relative and absolute, plus dangling links and 2-/3-cycles; copied with -L by both "
        "drivers. Model: the tree obtained by resolving every path with stat() (links to directories expanded to the target's full "
        "contents). Oracle: exit 0 => the destination contains no symbolic link and equals the resolved model (kinds and bytes); a "
        "tree containing a dangling or cyclic link => exit != 0. distinct_nontrivial = distinct (driver, set of link classes present, "
        "chain length class, expected outcome)")
ASSUMPTIONS = ["a link to an ancestor directory (infinite expansion) is not generated: the statement only demands non-zero for dangling/cyclic links"]


def F(p, size, seed):
    return {"p": p, "k": "f", "size": size, "seed": seed, "segs": None}


def gen_cases(tier, seed):
    n = 320 if tier == "quick" else 8000
    r = random.Random(seed * 32452867 + 13)
    yield from gen_deep(tier, random.Random(seed * 7 + 13))
    for i in range(n):
        driver = ["parfile", "parblock"][i % 2]
        spec = [{"p": "src", "k": "d"}, F("src/a", 100, r.randrange(1, 1 << 30)), F("src/b", 70000, r.randrange(1, 1 << 30)),
                {"p": "src/sub", "k": "d"}, F("src/sub/c", 5, r.randrange(1, 1 << 30)), {"p": "src/sub/deep", "k": "d"}, F("src/sub/deep/d", 4096, r.randrange(1, 1 << 30)),
                {"p": "out", "k": "d"}, F("out/x", 33, r.randrange(1, 1 << 30)), {"p": "out/od", "k": "d"}, F("out/od/y", 44, r.randrange(1, 1 << 30)),
                {"p": "out/od/inner", "k": "d"}, F("out/od/inner/z", 55, r.randrange(1, 1 << 30)), {"p": "out/od/emptyd", "k": "d"}]
        classes = set()
        into_dest = False
        nl = r.randint(1, 5)
        bad = False
        maxchain = 0
        for j in range(nl):
            cls = r.choice(["file-rel", "file-abs", "file-out", "dir-in", "dir-out", "dir-out-abs", "chain", "chain", "dangling", "cycle", "deep-link",
                            "dir-otherfs", "file-otherfs", "chain-otherfs", "same-name", "same-name", "into-dest", "deep-dir-out", "same-text", "same-text"])
            nm = "src/L%d" % j if r.random() < 0.6 else "src/sub/L%d" % j
            up = "" if nm.count("/") == 1 else "../"
            if cls == "same-text":
                # links in different directories with the very same relative text: each means the file next to it
                for d_ in ("src/sub", "src/sub/deep"):
                    if not any(e["p"] == d_ + "/a" for e in spec):
                        spec.append(F(d_ + "/a", r.choice([7, 300, 5000]), r.randrange(1, 1 << 30)))
                for d_ in ("src", "src/sub", "src/sub/deep"):
                    spec.append({"p": "%s/T%d" % (d_, j), "k": "l", "target": r.choice(["a", "a", "./a"]) if d_ != "src" else "a"})
            elif cls == "file-rel":
                spec.append({"p": nm, "k": "l", "target": up + "a"})
            elif cls == "file-abs":
                spec.append({"p": nm, "k": "l", "target": "@ROOT@/src/b"})
            elif cls == "file-out":
                spec.append({"p": nm, "k": "l", "target": up + "../out/x"})
            elif cls == "dir-in":
                spec.append({"p": nm, "k": "l", "target": up + "sub/deep"})
            elif cls == "dir-out":
                spec.append({"p": nm, "k": "l", "target": up + "../out/od"})
            elif cls == "dir-out-abs":
                spec.append({"p": nm, "k": "l", "target": "@ROOT@/out/od"})
            elif cls == "dir-otherfs":
                spec.append({"p": nm, "k": "l", "target": "@OTHER@/xd"})
            elif cls == "file-otherfs":
                spec.append({"p": nm, "k": "l", "target": "@OTHER@/xd/xy"})
            elif cls == "chain-otherfs":
                spec.append({"p": "out/hop%d" % j, "k": "l", "target": "@OTHER@/xd/xinner"})
                spec.append({"p": nm, "k": "l", "target": up + "../out/hop%d" % j})
            elif cls == "into-dest":
                spec.append({"p": nm, "k": "l", "target": up + "../dst/shared"})
                into_dest = True
            elif cls == "same-name":
                # a link in a subdirectory named like a different file elsewhere (content must come from the link's own target)
                if not any(e["p"] == "src/sub/a" for e in spec):
                    spec.append({"p": "src/sub/a", "k": "l", "target": "../b"})
                if not any(e["p"] == "src/sub/deep/c" for e in spec):
                    spec.append({"p": "src/sub/deep/c", "k": "l", "target": "../../../out/x"})
            elif cls == "deep-link":
                spec.append({"p": "out/od/inner/lk%d" % j, "k": "l", "target": "../../x"})   # a link inside a linked directory
                spec.append({"p": nm, "k": "l", "target": up + "../out/od"})
                # decoys: what '../../x' would designate if '..' were taken from the path walked (src/L/inner/..) instead of from
                # the directory the link really lives in (out/od/inner/..)
                for dp in ("src/x", "src/sub/x"):
                    if not any(e["p"] == dp for e in spec):
                        spec.append(F(dp, 33, r.randrange(1, 1 << 30)))
            elif cls == "deep-dir-out":
                # a link to a directory whose tree goes dozens of levels down (nothing to do with how many links the kernel follows)
                cur = "out/dp%d" % j
                spec.append({"p": cur, "k": "d"})
                for lv in range(1, r.choice([42, 45, 70]) + 1):
                    cur += "/n"
                    spec.append({"p": cur, "k": "d"})
                    if lv in (1, 38, 39, 40, 41, 42) or lv % 23 == 0:
                        spec.append(F(cur + "/f%d" % lv, 10 + lv, r.randrange(1, 1 << 30)))
                spec.append(F(cur + "/bottom", 7, r.randrange(1, 1 << 30)))
                spec.append({"p": nm, "k": "l", "target": up + "../out/dp%d" % j})
            elif cls == "chain":
                ln = r.choice([1, 2, 3, 8, 38]) if tier == "thorough" or r.random() < 0.3 else r.choice([1, 2, 3, 8])
                maxchain = max(maxchain, ln)
                final = r.choice(["../src/a", "../out/od"])
                prev = final
                for k in range(ln):
                    spec.append({"p": "out/ch%d_%d" % (j, k), "k": "l", "target": prev if k == 0 else "ch%d_%d" % (j, k - 1)})
                    prev = "ch%d_%d" % (j, k)
                spec.append({"p": nm, "k": "l", "target": up + "../out/" + prev})
            elif cls == "dangling":
                spec.append({"p": nm, "k": "l", "target": "no/such/thing"})
                bad = True
            else:
                k3 = r.random() < 0.5
                spec.append({"p": nm, "k": "l", "target": os.path.basename(nm) + "_b"})
                spec.append({"p": nm + "_b", "k": "l", "target": os.path.basename(nm) + ("_c" if k3 else "")})
                if k3:
                    spec.append({"p": nm + "_c", "k": "l", "target": os.path.basename(nm)})
                bad = True
            classes.add(cls)
        top = r.random() < 0.25 and not into_dest
        if into_dest:
            spec += [{"p": "dst", "k": "d"}, {"p": "dst/shared", "k": "d"}, F("dst/shared/common.txt", 77, r.randrange(1, 1 << 30)),
                     {"p": "dst/shared/inner", "k": "d"}, F("dst/shared/inner/deep.txt", 4097, r.randrange(1, 1 << 30))]
        topdst = None
        if top:
            spec.append({"p": "srclink", "k": "l", "target": r.choice(["src", "@ROOT@/src"])})
            classes.add("toplevel-link")
            topdst = r.choice(["absent", "existing-dir", "existing-dir"])
        # the entries of the source directory selected by a pattern instead of the directory being named (a bad link among them is
        # then a source of its own)
        globtop = not top and not into_dest and r.random() < 0.2
        # the destination already holds a copy made *without* -L (links as links): whatever the second run does about them, exit 0
        # still means a destination without links
        recopy = not top and not into_dest and not globtop and r.random() < 0.2
        yield {"recopy": recopy, "globtop": globtop, "deep": None, "into_dest": into_dest, "topdst": topdst, "top": top, "spec": spec, "driver": driver, "classes": sorted(classes), "bad": bad, "maxchain": maxchain, "fs": "ext4",
               "args": ["--driver", driver, "-w", str(r.choice([0, 1, 2, 4]))] + r.choice([[], [], ["--fsync"], ["--no-perms"], ["--gitignore"], ["--reflink", "never"], ["--no-progress"], ["--block-size", "4096"], ["-n"], ["--backup", "numbered"], ["--ownership"], ["-v"]])
                       + ["-r", "-L", "src", "dst"]}


def gen_deep(tier, r):
    """-L from a working directory so deep that absolute paths of the deepest entries exceed PATH_MAX while relative ones do not."""
    for i in range(8 if tier == "quick" else 120):
        driver = ["parfile", "parblock"][i % 2]
        comp = "d" * r.choice([200, 240])
        inner = "/".join(["e" * 200] * r.choice([2, 3]))
        spec = [{"p": "src", "k": "d"}, F("src/a", 100, r.randrange(1, 1 << 30)), {"p": "src/top-link", "k": "l", "target": "a"}]
        cur = "src"
        for c in inner.split("/"):
            cur += "/" + c
            spec.append({"p": cur, "k": "d"})
        spec += [F(cur + "/real.txt", 77, r.randrange(1, 1 << 30)), {"p": cur + "/link.txt", "k": "l", "target": "real.txt"},
                 {"p": cur + "/dlink", "k": "l", "target": "../" * inner.count("/") + "../a"}]
        yield {"deep": [comp] * (3850 // (len(comp) + 1)), "spec": spec, "driver": driver, "classes": ["deep-cwd"], "bad": False, "maxchain": 0, "fs": "ext4", "into_dest": False, "top": False, "topdst": None,
               "args": ["--driver", driver, "-w", str(r.choice([1, 4]))] + r.choice([[], ["--no-progress"], ["--fsync"]]) + ["-r", "-L", "src", "dst"]}


def run_deep(case):
    res = {"evals": [], "viol": [], "inconc": [], "counters": {}}
    with core.Sandbox(case["fs"], "c13") as sb:
        old = os.getcwd()
        try:
            os.chdir(sb.root)
            for c in case["deep"]:
                os.mkdir(c)
                os.chdir(c)
            deep = os.getcwd() if False else None
            tree.materialize(".", case["spec"])
            exp = resolved_model(".", "src")
            # (the process is started from inside the deep directory; the path to it is itself below PATH_MAX)
            run = core.run_plain(core.xcp_argv(case["args"]), os.path.join(sb.root, *case["deep"]))
            if run.verdict != "exited":
                res["inconc"].append("run-" + run.verdict)
                return res
            tag = "deep working directory (%d characters), driver=%s args=%s" % (sum(len(c) + 1 for c in case["deep"]), case["driver"], " ".join(case["args"]))
            outcome = "exit0" if run.exit0 else "nonzero"
            if run.exit0:
                post = tree.snapshot(b"dst")
                for p, rec in sorted(post.items()):
                    if rec["k"] == "l":
                        res["viol"].append({"sig": "%s:link-in-destination" % case["driver"], "what": "destination contains symbolic link %r -> %r; %s" % (p[-60:], rec.get("link"), tag)})
                        break
                for p, e in sorted(exp.items()):
                    d = post.get(p)
                    if d is None or d["k"] != e[0] or (e[0] == "f" and d.get("sha") != e[1]):
                        res["viol"].append({"sig": "%s:deep:%s" % (case["driver"], "missing" if d is None else "differs"), "what": "%r (%s) is %s in the destination; %s" % (p[-60:], e[0], "absent" if d is None else d["k"], tag)})
                        break
                res["counters"]["entries-compared"] = len(exp)
            res["counters"]["deep-cwd-" + outcome] = 1
            res["evals"].append({"key": [case["driver"], ["deep-cwd"], "chain<=8", False, outcome],
                                 "sample": {"args": case["args"], "cwd_length": sum(len(c) + 1 for c in case["deep"]), "exit": run.status,
                                            "first_error": ([l for l in run.stderr.splitlines() if "rror" in l] or [""])[0][-160:]}})
        finally:
            os.chdir(old)
    return res


def resolved_model(root, src):
    """{relative path: ('d',) | ('f', sha)} obtained by following every link; None if something cannot be resolved."""
    out = {}
    base = os.path.join(b(root), b(src))

    def walk(real, rel, depth):
        if depth > 400:
            raise OSError("too deep")      # (a directory loop through links: the real trees here are at most ~80 levels deep)
        st = os.stat(real)           # follows links; raises for dangling / loops
        if stat.S_ISDIR(st.st_mode):
            out[rel] = ("d",)
            for n in sorted(os.listdir(real)):
                walk(os.path.join(real, n), (rel + "/" if rel else "") + u(n), depth + 1)
        elif stat.S_ISREG(st.st_mode):
            out[rel] = ("f", tree.sha_file(real))
        else:
            out[rel] = ("other",)
    walk(base, "", 0)
    return out


def run_case(case):
    if case.get("deep"):
        return run_deep(case)
    res = {"evals": [], "viol": [], "inconc": [], "counters": {}}
    with core.Sandbox(case["fs"], "c13") as sb:
        root = sb.root
        # a small tree on the other filesystem (links may point across devices)
        tree.materialize(sb.other, [{"p": "xd", "k": "d"}, F("xd/xy", 66, 901), {"p": "xd/xinner", "k": "d"}, F("xd/xinner/xz", 4097, 902), {"p": "xd/xempty", "k": "d"}])
        spec = subst(case["spec"], root)
        for e in spec:
            if e.get("target", "").startswith("@OTHER@"):
                e["target"] = sb.other + e["target"][len("@OTHER@"):]
        tree.materialize(root, spec)
        try:
            exp = resolved_model(root, "src")
            resolvable = True
        except OSError:
            exp, resolvable = None, False
        if resolvable == case["bad"]:
            res["inconc"].append("generator-model-disagree")
            return res
        args = list(case["args"])
        dstroot = "dst/src" if case.get("into_dest") else "dst"
        if case.get("top"):
            args[-2] = "srclink"
            if case.get("topdst") == "existing-dir":
                os.mkdir(os.path.join(b(root), b"dst"))
                dstroot = "dst/srclink"     # copied *into* the directory, under the link's own name
        if case.get("recopy"):
            first = core.run_plain(core.xcp_argv(["--driver", case["driver"], "-r", "-T", "src", "dst"]), root)
            args = args[:-2] + ["-T", "src", "dst"]
            res["counters"]["runs-over-a-copy-made-without-L"] = 1
        if case.get("globtop"):
            os.mkdir(os.path.join(b(root), b"dst"))
            args = args[:-2] + ["--glob", r"src/*", "dst"]
            res["counters"]["sources-selected-by-pattern"] = 1
        run = core.run_plain(core.xcp_argv(args), root)
        if run.verdict != "exited":
            res["inconc"].append("run-" + run.verdict)
            return res
        tag = "driver=%s links=%s args=%s" % (case["driver"], case["classes"], " ".join(args))
        outcome = "exit0" if run.exit0 else "nonzero"
        if case["bad"]:
            if run.exit0:
                cls = "cycle" if "cycle" in case["classes"] else "dangling"
                res["viol"].append({"sig": "%s:exit0-with-%s-link" % (case["driver"], cls), "what": "tree contains a %s link but xcp -L exited 0; %s" % (cls, tag)})
        elif run.exit0:
            post = tree.snapshot(os.path.join(b(root), b(dstroot)))
            if not post:
                res["viol"].append({"sig": "%s:toplevel-link-misnamed" % case["driver"], "what": "nothing was created at %s (entries under dst: %s); %s"
                                    % (dstroot, sorted(tree.snapshot(os.path.join(b(root), b"dst"), content=False))[:5], tag)})
            for p, rec in sorted(post.items()):
                if rec["k"] == "l":
                    res["viol"].append({"sig": "%s:link-in-destination" % case["driver"], "what": "destination contains symbolic link %r -> %r; %s" % (p, rec.get("link"), tag)})
                    break
            for p, e in sorted(exp.items()):
                d = post.get(p)
                if d is None:
                    par = os.path.dirname(p)
                    res["viol"].append({"sig": "%s:missing-through-link:%s" % (case["driver"], e[0]), "what": "resolved source has %r (%s) but the destination does not; %s" % (p, e[0], tag)})
                    break
                if d["k"] != e[0]:
                    res["viol"].append({"sig": "%s:kind:%s->%s" % (case["driver"], e[0], d["k"]), "what": "%r should be %s, is %s; %s" % (p, e[0], d["k"], tag)})
                    break
                if e[0] == "f" and d.get("sha") != e[1]:
                    res["viol"].append({"sig": "%s:bytes" % case["driver"], "what": "%r differs from what the link resolves to; %s" % (p, tag)})
                    break
            extra = sorted(set(post) - set(exp))
            if extra:
                res["viol"].append({"sig": "%s:extra" % case["driver"], "what": "destination has %r which the resolved source lacks; %s" % (extra[0], tag)})
            res["counters"]["entries-compared"] = len(exp)
        else:
            res["counters"]["resolvable-but-nonzero"] = 1
        res["counters"][outcome] = 1
        res["evals"].append({"key": [case["driver"], case["classes"], "chain>8" if case["maxchain"] > 8 else "chain<=8", case["bad"], outcome],
                             "sample": {"args": case["args"], "links": [e for e in case["spec"] if e["k"] == "l"][:6], "expected": "nonzero" if case["bad"] else "resolved tree of %d entries" % len(exp or {}),
                                        "exit": run.status}})
    return res
