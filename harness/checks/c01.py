"""C01 -- exit 0 implies every copied regular file is byte-identical to its source."""
import os
import random

from .. import core, tree, model
from ..core import b, u

PROP = "C01"
LEVEL = "exploration"
RULE = ("seeded cases: 1-4 regular files (sizes boundary-biased around the block size in use, dense or sparse "
        "layouts) x prior destination {absent, shorter, longer, same size} x driver x workers x block size "
        "(incl. --no-progress) x reflink {auto, never} x {ext4, tmpfs} x schedule {OS, supervisor pct}; "
        "oracle: sha256+length of every destination file vs. the source bytes snapshotted before the run. "
        "distinct_nontrivial = distinct (driver, block class, workers, size class relative to block, layout, "
        "prior class, fs) among exit-0 runs that copied at least one byte")
ASSUMPTIONS = ["sha256 equality stands for byte equality", "source bytes are those snapshotted before the run"]

BLOCKS = [("1", 1), ("7", 7), ("512", 512), ("4096", 4096), ("64KB", 65536), ("1MB", 1000000), ("np", None)]


def size_class(size, bs):
    if bs is None or size == 0:
        return "0" if size == 0 else "1blk"
    k, rem = divmod(size, bs)
    return "%s%s" % ("k" if k > 1 else str(k), "=0" if rem == 0 else ("+1" if rem == 1 else ("-1" if rem == bs - 1 else "+r")))


def gen_file(r, bsv, idx, big_ok):
    kind = r.choice(["dense", "dense", "dense", "sparse", "sparse-unaligned", "allhole", "manyseg"])
    e = {"p": "src/f%d" % idx, "k": "f", "seed": r.randrange(1, 1 << 30), "segs": None, "sync": r.random() < 0.5}
    if kind == "dense" or (bsv is not None and bsv < 512):
        kind = "dense"
        if bsv is None:
            sizes = [0, 1, 4095, 4096, 65537, 1000003, 3000001]
        elif bsv <= 7:
            sizes = [s for s in tree.boundary_sizes(bsv) if s <= 40 * bsv] + [0, 1, 97]
        else:
            sizes = [s for s in tree.boundary_sizes(bsv) if s <= max(6 * bsv, 200000) and s <= 9000000]
        e["size"] = r.choice(sizes)
    elif kind == "manyseg":
        # more data segments than two FIEMAP pages hold, each in an extent of its own
        n = r.choice([40, 70, 100])
        segs, pos = [], r.choice([0, 65536])
        for _ in range(n):
            ln = r.choice([1, 4096, 5000, 12289])
            segs.append([pos, ln])
            pos += ln + r.choice([65536, 3 * 4096, 1 << 18])
        e["size"], e["segs"] = pos if r.random() < 0.5 else segs[-1][0] + segs[-1][1], segs
        if r.random() < 0.4:
            # logically touching extents (alternating written / preallocated blocks) followed by a hole and a tail
            nblk = r.choice([34, 65, 70, 100])
            ph = r.randrange(2)
            segs = [[k * 4096, 4096] for k in range(nblk) if k % 2 == ph]
            tail = nblk * 4096 + (4 << 20)
            segs.append([tail, r.choice([1, 4096, 5000])])
            e["falloc"] = [[0, nblk * 4096]]
            # not always flushed: data written into a preallocated range stays flagged 'unwritten' in the extent map until writeback
            e["sync"] = r.random() < 0.5
            e["size"], e["segs"] = tail + segs[-1][1], segs
        elif r.random() < 0.3:
            # freshly written data inside a larger preallocated range, followed by a hole: the file looks sparse
            pre_len = r.choice([1 << 20, 300000, 2 << 20])
            dl = r.choice([85500, 4096, pre_len, pre_len - 1])
            e["falloc"] = [[0, pre_len]]
            e["sync"] = False
            e["segs"] = [[0, dl]] + ([[pre_len // 2 + 7, 100]] if dl < pre_len // 2 else [])
            e["size"] = pre_len + r.choice([3 << 20, (8 << 20) + 1])
    elif kind == "allhole":
        e["size"] = r.choice([1 << 20, (3 << 20) + 17, 10 << 20])
        e["segs"] = []
    else:
        size, segs = tree.gen_sparse_layout(r, max_size=48 << 20, max_segs=5, align=(kind == "sparse"))
        e["size"], e["segs"] = size, segs
        if not segs:
            kind = "allhole"
    e["layout"] = kind
    return e


def gen_cases(tier, seed):
    n = 640 if tier == "quick" else 12000
    r = random.Random(seed * 1000003 + 1)
    for i in range(n):
        bname, bsv = BLOCKS[i % len(BLOCKS)]
        driver = ["parblock", "parfile"][(i // len(BLOCKS)) % 2]
        nfiles = r.choice([1, 1, 2, 3, 4])
        files = [gen_file(r, bsv, k, False) for k in range(nfiles)]
        single = nfiles == 1 and r.random() < 0.5
        prior = r.choice(["absent", "absent", "shorter", "longer", "same", "full"])
        pre = []
        if not single:
            if prior != "absent":
                pre.append({"p": "dst", "k": "d"})
        for f in files:
            if prior == "absent":
                continue
            dstp = "dst" if single else "dst/" + os.path.basename(f["p"])
            sz = {"shorter": max(0, f["size"] // 2 - 1), "longer": f["size"] + r.choice([1, 4096, 70000]),
                  "same": f["size"], "full": f["size"]}[prior]
            if sz > 12 << 20 and prior != "full":
                sz = r.choice([1, 4097, 100000])
            if prior == "full" and sz > 24 << 20:
                sz = 24 << 20
            pre.append({"p": dstp, "k": "f", "size": sz, "seed": r.randrange(1, 1 << 30), "segs": None, "sync": True})
        workers = r.choice([0, 1, 2, 3, 4, 8, 16])
        args = ["--driver", driver, "-w", str(workers), "--reflink", r.choice(["auto", "never"])]
        args += ["--no-progress"] if bsv is None else ["--block-size", str(bsv)]
        for o, pr in (("--fsync", 0.15), ("--no-perms", 0.1), ("--no-timestamps", 0.1), ("--ownership", 0.1), ("-L", 0.05), ("--gitignore", 0.05)):
            if r.random() < pr:
                args.append(o)
        if r.random() < 0.1:
            args += ["--backup", r.choice(["numbered", "auto"])]
        if r.random() < 0.08:
            args.append(r.choice(["-v", "-vv", "-vvv"]))
        args += ([files[0]["p"], "dst"] if single else ["-r", "src", "dst"])
        # several sources named one by one, some of them on the other filesystem: one run then sees two kinds of filesystem
        mixed = None
        if nfiles >= 2 and not single and r.random() < 0.3:
            mixed = sorted(r.sample(range(nfiles), r.randint(1, nfiles - 1)))
            order = list(range(nfiles))
            r.shuffle(order)
            args = args[:-3] + ["@SRC%d@" % k for k in order] + ["dst"]
            if not any(e["p"] == "dst" for e in pre):
                pre.insert(0, {"p": "dst", "k": "d"})
        # now and then some of the files have a second name deeper in the tree (hard links): every name is a file to be copied
        r2 = random.Random(seed * 101 + i)
        extra_names = []
        if not single and mixed is None and r2.random() < 0.25:
            extra_names = [{"p": "src/more", "k": "d"}] + [{"p": "src/more/also-%d" % k, "k": "hard", "target": f["p"]} for k, f in enumerate(files) if r2.random() < 0.7 or k == 0]
        yield {"mixed": mixed, "xdev": mixed is None and r.random() < 0.15, "fs": "tmpfs" if r.random() < 0.3 else "ext4", "spec": [{"p": "src", "k": "d"}] + files + extra_names, "pre": pre,
               "args": args, "single": single, "prior": prior, "driver": driver, "block": bname, "bsv": bsv,
               "workers": workers, "sched": r.choice(["os", "os", "pct", "jitter"]), "sseed": r.randrange(1 << 30)}
    for i in range(4 if tier == "quick" else 24):
        driver = ["parblock", "parfile"][i % 2]
        b0 = (4 << 30) + r.choice([0, 4096, 1234567])
        segs = [[0, 5000], [(2 << 30) - 100, 300], [b0, 70000], [b0 + (3 << 20), 1]]
        f = {"p": "src/f0", "k": "f", "size": segs[-1][0] + 1 + r.choice([0, 4096]), "seed": r.randrange(1, 1 << 30), "segs": segs, "sync": True, "layout": "beyond-4GiB"}
        bsel = r.choice([("1MB", 1000000), ("64KB", 65536), ("np", None)])
        args = ["--driver", driver, "-w", str(r.choice([1, 4])), "--reflink", "never"] + (["--no-progress"] if bsel[1] is None else ["--block-size", str(bsel[1])]) + ["src/f0", "dst"]
        yield {"fs": "ext4" if i % 4 < 2 else "tmpfs", "spec": [{"p": "src", "k": "d"}, f], "pre": [], "args": args, "single": True, "prior": "absent", "driver": driver,
               "block": bsel[0], "bsv": bsel[1], "workers": 4, "sched": "os", "sseed": 1}
    for i in range(8 if tier == "quick" else 60):
        # blocks of many MiB through the user-space copy path (source on the other filesystem): dense runs longer than any buffer
        driver = ["parblock", "parfile"][i % 2]
        size = r.choice([(8 << 20) + 1, (9 << 20) + 12345, (16 << 20) + 4096, (17 << 20) + 3, 25000000])
        bsel = r.choice([("np", None), ("16MB", 16000000), ("32MB", 32000000), ("np", None)])
        f = {"p": "src/f0", "k": "f", "size": size, "seed": r.randrange(1, 1 << 30), "segs": None, "sync": False, "layout": "dense"}
        if r.random() < 0.3:
            f.update({"segs": [[4096, (9 << 20) + 77], [size - 5000, 5000]], "layout": "sparse-unaligned", "sync": True})
        args = ["--driver", driver, "-w", str(r.choice([1, 2, 4]))] + (["--no-progress"] if bsel[1] is None else ["--block-size", str(bsel[1])]) + ["src/f0", "dst"]
        yield {"xdev": True, "fs": ["ext4", "tmpfs"][(i // 2) % 2], "spec": [{"p": "src", "k": "d"}, f], "pre": [], "args": args, "single": True, "prior": "absent", "driver": driver,
               "block": bsel[0], "bsv": bsel[1], "workers": 4, "sched": "os", "sseed": 1}
    # regular files that report a length of 0 although they have content (the kernel's own: /proc, /proc/sys): "exactly the
    # source's bytes" still applies to them
    # (the last two take many read() calls to deliver: the kernel hands out such files a page of records at a time)
    for i, path in enumerate([p_ for p_ in ["/proc/version", "/proc/filesystems", "/proc/sys/kernel/ostype", "/proc/version", "/proc/crypto", "/proc/kallsyms"] if os.path.exists(p_)]):
        for driver in ("parfile", "parblock"):
            blk = [["--block-size", "4096"], ["--no-progress"], ["--block-size", "1MB"], ["--block-size", "7"], ["--block-size", "4096"], ["--no-progress"]][i]
            yield {"unsized": path, "fs": ["ext4", "tmpfs"][i % 2], "driver": driver, "block": blk[-1], "prior": ["absent", "longer"][i % 2],
                   "args": ["--driver", driver, "-w", str(r.choice([1, 4]))] + blk + ([] if i < 3 else ["--reflink", "never"]) + [path, "dst"]}
    # a file size limit (RLIMIT_FSIZE, with SIGXFSZ ignored so that the kernel answers EFBIG) below the length of a sparse source
    # whose data would fit: exit 0 must still mean the exact length
    for i in range(8 if tier == "quick" else 60):
        driver = ["parfile", "parblock"][i % 2]
        tail = r.choice(["hole", "hole", "data"])
        segs = [[0, 30000], [(1 << 20) + 5, 9000]] + ([[(6 << 20) - 100, 100]] if tail == "data" else [])
        f = {"p": "src/f0", "k": "f", "size": 6 << 20, "seed": r.randrange(1, 1 << 30), "segs": segs, "sync": True, "layout": "sparse-tail-" + tail}
        blk = r.choice([["--block-size", "4096"], ["--block-size", "1MB"], ["--no-progress"]])
        yield {"fsize_kb": r.choice([2048, 4096, 5000]), "fs": ["ext4", "tmpfs"][(i // 2) % 2], "spec": [{"p": "src", "k": "d"}, f], "pre": [], "single": True, "prior": "absent", "driver": driver,
               "block": blk[-1], "bsv": None, "workers": 2, "sched": "os", "sseed": 1, "args": ["--driver", driver, "-w", "2"] + blk + ["src/f0", "dst"]}
    if tier == "thorough":
        # one file larger than a single kernel copy request (2 GiB - 4 KiB), both drivers, --no-progress and 1MB blocks
        for driver in ("parblock", "parfile"):
            for blk in (["--no-progress"], ["--block-size", "1GB"]):
                yield {"fs": "tmpfs", "spec": [{"p": "src", "k": "d"},
                                               {"p": "src/f0", "k": "f", "size": (2 << 30) + 8192 + 1, "seed": 77,
                                                "segs": None, "stamp": True, "layout": "dense"}],
                       "pre": [], "args": ["--driver", driver, "-w", "4"] + blk + ["src/f0", "dst"], "single": True,
                       "prior": "absent", "driver": driver, "block": "np" if blk[0] == "--no-progress" else "1GB",
                       "bsv": None, "workers": 4, "sched": "os", "sseed": 1, "big": True}


def write_stamped(path, size, seed):
    blk = bytearray(tree.body(seed, 1 << 20))
    with open(path, "wb", buffering=0) as f:
        pos = 0
        i = 0
        while pos < size:
            blk[0:8] = i.to_bytes(8, "little")
            n = min(len(blk), size - pos)
            f.write(bytes(blk[:n]))
            pos += n
            i += 1


def run_unsized(case, res):
    with core.Sandbox(case["fs"], "c01") as sb:
        if case["prior"] == "longer":
            with open(os.path.join(sb.root, "dst"), "wb") as f:
                f.write(b"previous content " * 4000)
        run = core.run_plain(core.xcp_argv(list(case["args"])), sb.root, timeout=120)
        if run.verdict != "exited":
            res["inconc"].append("run-" + run.verdict)
            return res
        if not run.exit0:
            res["counters"]["nonzero-exit"] = 1
            return res
        want = open(case["unsized"], "rb").read()
        if want != open(case["unsized"], "rb").read():
            res["inconc"].append("unsized-source-not-stable")
            return res
        got = open(os.path.join(sb.root, "dst"), "rb").read()
        if got != want:
            res["viol"].append({"sig": "%s:unsized:%s" % (case["driver"], "size" if len(got) != len(want) else "bytes"),
                                "what": "exit 0 but the copy of %s holds %d bytes, reading the source gives %d; args=%s" % (case["unsized"], len(got), len(want), " ".join(case["args"]))})
        res["counters"]["exit0"] = 1
        res["counters"]["unsized-sources"] = 1
        res["evals"].append({"key": [case["driver"], case["block"], "unsized", case["unsized"], case["prior"], case["fs"]],
                             "sample": {"args": case["args"], "source_bytes": len(want), "stat_size": os.stat(case["unsized"]).st_size}})
    return res


def run_case(case):
    res = {"evals": [], "viol": [], "inconc": [], "counters": {}}
    if case.get("unsized"):
        return run_unsized(case, res)
    with core.Sandbox(case["fs"], "c01") as sb:
        spec = [e for e in case["spec"] if not e.get("stamp")]
        # cross-device cases: the sources live on the other filesystem and are named by absolute path
        sroot = sb.other if case.get("xdev") else sb.root
        if case.get("mixed") is not None:
            fl = [e for e in spec if e["k"] == "f"]
            far = [fl[k]["p"] for k in case["mixed"]]
            tree.materialize(sb.other, [e for e in spec if e["k"] == "d" or e["p"] in far])
            tree.materialize(sb.root, [e for e in spec if e["k"] == "d" or e["p"] not in far])
        else:
            tree.materialize(sroot, spec)
        for e in case["spec"]:
            if e.get("stamp"):
                write_stamped(os.path.join(b(sroot), b(e["p"])), e["size"], e["seed"])
        tree.materialize(sb.root, case["pre"])
        pre = tree.snapshot(sb.root)
        args = list(case["args"])
        if case.get("xdev"):
            pre.update({k: v for k, v in tree.snapshot(sb.other).items() if k})
            args = [(sb.other + "/" + a) if (a == "src" or a.startswith("src/")) else a for a in args]
        if case.get("mixed") is not None:
            pre.update({k: v for k, v in tree.snapshot(sb.other).items() if k and k != "src"})
            fl = [e for e in case["spec"] if e["k"] == "f"]
            args = [((sb.other + "/" if int(a[4:-1]) in case["mixed"] else "") + fl[int(a[4:-1])]["p"]) if a.startswith("@SRC") else a for a in args]
        if case.get("fsize_kb"):
            run = core.run_plain(["sh", "-c", "trap '' XFSZ; ulimit -f %d; exec \"$@\"" % case["fsize_kb"], "sh"] + core.xcp_argv(args), sb.root, timeout=600)
            res["counters"]["runs-under-a-file-size-limit"] = 1
        elif case["sched"] == "os":
            run = core.run_plain(core.xcp_argv(args), sb.root, timeout=600)
        else:
            plan = {"sched": case["sched"], "sched_seed": case["sseed"], "sched_d": 3, "log_mode": "none",
                    "wall_ms": 300000, "pct_horizon": 300}
            run = core.run_xcp(sb, args, plan)
        if run.verdict != "exited":
            res["inconc"].append("run-" + run.verdict)
            return res
        if not run.exit0:
            res["counters"]["nonzero-exit"] = 1
            res["counters"]["nonzero:" + (run.stderr.strip().splitlines() or ["?"])[-1][-60:]] = 1
            return res
        post = tree.snapshot(sb.root)
        srcs = [case["spec"][1]["p"]] if case["single"] else ["src"]
        if case.get("mixed") is not None:
            srcs = [e["p"] for e in case["spec"] if e["k"] == "f"]
        mapping, _ = model.map_sources(pre, sb.root, srcs, "dst")
        files = [m for m in mapping if m["rec"]["k"] == "f"]
        bad = model.check_mirror(pre, post, files)
        total = sum(m["rec"]["size"] for m in files)
        for frag, msg in bad:
            extra = ""
            if frag in ("bytes",):
                m = next(m for m in files if m["src"] in msg)
                sp_ = os.path.join(b(sroot), b(m["src"]))
                if not os.path.exists(sp_):
                    sp_ = os.path.join(b(sb.other), b(m["src"]))
                off, kind = model.first_diff(sp_, os.path.join(b(sb.root), b(m["dst"])))
                extra = " first difference at offset %s (%s)" % (off, kind)
            sig = "%s:block=%s:%s:%s" % (case["driver"], case["block"], "big" if case.get("big") else "xdev" if case.get("xdev") else "mixed-fs" if case.get("mixed") is not None else "std", frag)
            res["viol"].append({"sig": sig, "what": "exit 0 but " + msg + extra + " ; args=" + " ".join(case["args"])})
        specs = {e["p"]: e for e in case["spec"] if e["k"] == "f"}
        for e in case["spec"]:
            if e["k"] == "hard":
                specs[e["p"]] = specs[e["target"]]      # (a second name of the same file)
                res["counters"]["files-with-a-second-name"] = res["counters"].get("files-with-a-second-name", 0) + 1
        keys = set()
        for m in files:
            e = specs[m["src"]]
            keys.add((case["driver"], case["block"], case["workers"], size_class(e["size"], case["bsv"]), e.get("layout"),
                      case["prior"], case["fs"] + ("->other" if case.get("xdev") else "+other" if case.get("mixed") is not None else "")))
        for k in keys:
            res["evals"].append({"key": list(k) if total > 0 else None})
        if not keys:
            res["evals"].append({"key": None})
        res["evals"][0]["sample"] = {"args": case["args"], "fs": case["fs"], "prior": case["prior"], "sched": case["sched"],
                                     "files": [{"size": specs[m["src"]]["size"], "layout": specs[m["src"]].get("layout"),
                                                "segs": specs[m["src"]].get("segs")} for m in files], "exit": 0}
        res["counters"]["exit0"] = 1
        res["counters"]["bytes-compared"] = total
        res["counters"]["files-compared"] = len(files)
        res["counters"]["sched:" + case["sched"]] = 1
        if case.get("xdev"):
            res["counters"]["cross-device-runs"] = 1
    return res
