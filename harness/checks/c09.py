"""C09 -- numbered backups never lose a version, for any name, history or kill point."""
import os
import random
import re

from .. import core, tree, model, sites
from ..core import b, u

PROP = "C09"
LEVEL = "fault_enumeration"
RULE = ("histories of 2-8 copies onto the same destination with fresh content each time and backup mode drawn from {none, auto, "
        "numbered}, replayed step by step with a directory listing + content hashes after every step; names: plain, dotted, "
        "spellings of the destination (dst/name, ./dst/name, bare name with the destination directory as cwd, absolute, dir/../, through a symlinked directory), a destination name that starts out as a symlink to a file elsewhere, prefix-related pairs (file / file2 / file.txt), names that look like backups (a.~1~), non-UTF-8 bytes (inside a copied "
        "directory), pre-seeded backup sets with gaps and numbers up to 2^62; single-file and directory copies; both drivers. "
        "Model per step and name (byte-exact <name>.~N~ parsing): numbered => old content is intact under <name>.~N~ with N greater "
        "than every number present before; auto => exactly when a backup of that exact name existed; no existing backup changes. "
        "Plus SIGKILL before/after every mutating system call of the overwrite step: the old content must still exist under the "
        "original or a backup name. distinct_nontrivial = distinct (driver, name class, mode, pre-existing backup set class, step "
        "index | kill site)")
ASSUMPTIONS = ["backup numbers with leading zeros and numbers above u64 are not generated (the statement does not define them); with 2^64-1 present no larger number exists, so a refusal (non-zero exit, nothing lost) is what is demanded",
               "kill points are system-call boundaries; rename is atomic in the kernel"]

NAMES = {
    "plain": ["file"],
    "dotted": ["file.txt", "archive.tar.gz", ".hidden"],
    "prefix-pair": ["file", "file2", "file.txt", "fil"],
    "backup-lookalike": ["a.~1~"],
    "non-utf8": ["bad\xff", "caf\xe9.txt"],
    "spaces": ["my file", "tab\tname"],
    "tilde": ["x~", "~y~", "n.~z~"],
    "hardlinked-pair": ["report.txt", "latest.txt"],      # two names of one file in the destination, only the first has a backup
    "backup-named-sibling": ["f", "f.~1~"],      # the second name is recomputed per case: the number the backup of the first would get
    "long": ["L" * 250, "M" * 251, "N" * 252, "O" * 254, "P" * 255],
}
BSETS = {"none": [], "one": [1], "gap": [1, 3, 7], "large": [1, 2 ** 62], "many": list(range(1, 13)), "u64max": [5, 2 ** 64 - 1], "zero": [0],
         "beyond-u64": [3, 2 ** 64], "huge": [10 ** 25 + 7]}

BAK = re.compile(rb"^(.*)\.~([1-9][0-9]*|0)~$", re.S)


def backups_of(listing, name):
    """{number: entry name} of byte-exact backups <name>.~N~ in a directory listing (bytes names)."""
    out = {}
    for n in listing:
        m = BAK.match(n)
        if m and m.group(1) == name:
            out[int(m.group(2))] = n
    return out


def gen_cases(tier, seed):
    n = 320 if tier == "quick" else 7000
    r = random.Random(seed * 86028121 + 9)
    for i in range(n):
        driver = ["parfile", "parblock"][i % 2]
        ncls = r.choice(sorted(NAMES))
        names = list(NAMES[ncls]) if ncls in ("prefix-pair", "hardlinked-pair") else [r.choice(NAMES[ncls])]
        dircopy = ncls == "non-utf8" or r.random() < 0.5
        bset = r.choice(sorted(BSETS))
        if ncls == "backup-named-sibling":
            # two sources of one run: a file, and a file named like the backup the first one's old version is about to receive
            bset = r.choice(["none", "one", "gap", "many"])
            names = ["f", "f.~%d~" % (max(BSETS[bset] + [0]) + r.choice([1, 1, 1, 2]))]
        pre = [{"p": "dst", "k": "d"}]
        base = "dst/src" if dircopy else "dst"
        if dircopy:
            pre.append({"p": "dst/src", "k": "d"})
        seeded = {}
        if ncls in ("plain", "dotted", "spaces") and r.random() < 0.3:
            # a neighbour whose "number" is written in other digits (Arabic-Indic three) or with a sign: not a backup of anything
            for odd in ("\xd9\xa3", "+5"):
                pre.append({"p": "%s/%s.~%s~" % (base, names[0], odd), "k": "f", "size": 4, "seed": r.randrange(1, 1 << 30), "segs": None})
        if ncls == "backup-lookalike":
            # the name it looks like a backup of lives next to it, with a backup of its own
            pre.append({"p": base + "/a", "k": "f", "size": 11, "seed": r.randrange(1, 1 << 30), "segs": None})
            if r.random() < 0.5:
                pre.append({"p": base + "/a.~2~", "k": "f", "size": 12, "seed": r.randrange(1, 1 << 30), "segs": None})
        if ncls == "hardlinked-pair":
            bset = r.choice(["one", "gap", "none"])
            pre += [{"p": base + "/" + names[0], "k": "f", "size": 3000, "seed": r.randrange(1, 1 << 30), "segs": None},
                    {"p": base + "/" + names[1], "k": "hard", "target": base + "/" + names[0]}]
            pre += [{"p": "%s/%s.~%d~" % (base, names[0], k), "k": "f", "size": 7, "seed": r.randrange(1, 1 << 30), "segs": None} for k in BSETS[bset]]
            seeded = {names[0]: BSETS[bset], names[1]: []}
        for nm in ([] if ncls == "hardlinked-pair" else names):
            if r.random() < 0.7 or (ncls == "backup-named-sibling" and nm == names[0]):
                pre.append({"p": base + "/" + nm, "k": "f", "size": r.choice([0, 5, 3000]), "seed": r.randrange(1, 1 << 30), "segs": None})
            nums = BSETS[bset] if (nm == names[0] or (r.random() < 0.5 and ncls != "backup-named-sibling")) else []
            for k in nums:
                if len(b(nm)) + len(".~%d~" % k) > 255:
                    continue    # such a backup name cannot exist (NAME_MAX)
                pre.append({"p": "%s/%s.~%d~" % (base, nm, k), "k": "f", "size": 7, "seed": r.randrange(1, 1 << 30), "segs": None})
            seeded[nm] = nums
        steps = []
        for s in range(r.randint(2, 8 if tier == "thorough" else 5)):
            steps.append({"mode": r.choice(["none", "auto", "numbered", "numbered"]),
                          "files": {nm: {"size": r.choice([0, 1, 100, 70000]), "seed": r.randrange(1, 1 << 30)} for nm in names if r.random() < 0.85 or nm == names[0]}})
        if ncls == "backup-named-sibling" and r.random() < 0.35:
            # ... the source named like the backup is not a regular file but a FIFO (copied by removing what is there and making a node)
            for st_ in steps:
                if names[1] in st_["files"]:
                    st_["files"][names[1]] = {"size": 0, "seed": 1, "kind": "fifo"}
        if ncls == "hardlinked-pair":
            # both names are overwritten by every run and a backup mode is always on: what an in-place overwrite of one name does
            # to the other names of the same file is cp's long-standing behaviour and not what this class is about
            for st_ in steps:
                st_["mode"] = r.choice(["auto", "auto", "numbered"])
                for nm in names:
                    st_["files"].setdefault(nm, {"size": r.choice([0, 1, 100, 70000]), "seed": r.randrange(1, 1 << 30)})
        # how a single-file destination is spelled: also without any directory part (cwd is the destination's directory),
        # through a symlinked directory, absolute; and the destination name may at first be a symlink to a file elsewhere
        spell = r.choice(["plain", "plain", "dot", "cwd", "cwd", "abs", "dotdot", "dirlink"]) if not dircopy and len(names) == 1 else "plain"
        linkdest = not dircopy and len(names) == 1 and ncls != "backup-lookalike" and r.random() < 0.2
        if linkdest:
            pre = [e for e in pre if e["p"] != base + "/" + names[0]]
            pre += [{"p": "elsewhere", "k": "d"}, {"p": "elsewhere/" + names[0], "k": "f", "size": 4321, "seed": r.randrange(1, 1 << 30), "segs": None},
                    {"p": base + "/" + names[0], "k": "l", "target": "../elsewhere/" + names[0]}]
        if spell == "dirlink":
            pre.append({"p": "dlink", "k": "l", "target": "dst"})
        yield {"kind": "history", "driver": driver, "names": names, "ncls": ncls, "dircopy": dircopy, "bset": bset, "pre": pre, "steps": steps, "fs": "ext4",
               "workers": r.choice([0, 1, 2, 4]), "spell": spell, "linkdest": linkdest,
               # the backup rename itself may be refused (sticky directory and somebody else's file): nothing may be lost then either
               "refuse_rename": r.random() < 0.08,
               # ... or the scan of the destination directory for existing backups fails part-way (EIO, a stale handle): a listing
               # that could not be read is not an empty listing
               "listing_fault": r.choice([1, 1, 2, 3]) if r.random() < 0.15 else 0}
    # kill-point enumeration of one overwrite step per (driver, mode)
    for driver in ("parfile", "parblock"):
        for mode in ("numbered", "auto"):
            for ncls in (("plain", "non-utf8", "prefix-pair") if tier == "quick" else sorted(n_ for n_ in NAMES if n_ not in ("backup-named-sibling", "hardlinked-pair"))):      # (pairs that are refused have no overwrite step to kill)
                names = list(NAMES[ncls])[:2]
                dircopy = True
                pre = [{"p": "dst", "k": "d"}, {"p": "dst/src", "k": "d"}]
                for nm in names:
                    pre.append({"p": "dst/src/" + nm, "k": "f", "size": 100000, "seed": r.randrange(1, 1 << 30), "segs": None})
                    pre.append({"p": "dst/src/%s.~1~" % nm, "k": "f", "size": 9, "seed": r.randrange(1, 1 << 30), "segs": None})
                yield {"kind": "killbase", "driver": driver, "names": names, "ncls": ncls, "dircopy": dircopy, "pre": pre, "mode": mode, "fs": "ext4",
                       "files": {nm: {"size": 150000, "seed": r.randrange(1, 1 << 30)} for nm in names}}


def step_args(case, mode, workers=2):
    a = ["--driver", case["driver"], "-w", str(workers), "--block-size", "32KB", "--backup", mode]
    if case["dircopy"]:
        return a + ["-r", "src", "dst"]
    if len(case["names"]) != 1:
        return a + ["src/" + n for n in case["names"]] + ["dst"]
    nm = case["names"][0]
    sp = case.get("spell", "plain")
    if sp == "cwd":
        return a + ["../src/" + nm, nm]          # run with the destination directory as cwd (see step_cwd)
    d = {"plain": "dst/", "dot": "./dst/", "abs": "@ROOT@/dst/", "dotdot": "src/../dst/", "dirlink": "dlink/"}[sp]
    return a + ["src/" + nm, d + nm]


def step_cwd(case, root):
    return os.path.join(root, "dst") if case.get("spell") == "cwd" and not case["dircopy"] and len(case["names"]) == 1 else root


def write_sources(root, files, subdirs=0):
    core.force_rmtree(os.path.join(b(root), b"src"))
    spec = [{"p": "src", "k": "d"}] + [{"p": "src/" + nm, "k": f.get("kind", "f"), "size": f["size"], "seed": f["seed"], "segs": None} for nm, f in files.items()]
    # (sub-directories with a file each: wherever the directory listing puts them, the walk leaves the directory and comes back)
    for k in range(subdirs):
        spec += [{"p": "src/zsub%d" % k, "k": "d"}, {"p": "src/zsub%d/inner" % k, "k": "f", "size": 3, "seed": 77 + k, "segs": None}]
    tree.materialize(root, spec)


def listing(root, d):
    p = os.path.join(b(root), b(d))
    return {n: tree.record(os.path.join(p, n)) for n in os.listdir(p)}


def expand_case(case):
    if case["kind"] != "killbase":
        return [case]
    with core.Sandbox(case["fs"], "c09") as sb:
        root = sb.root
        tree.materialize(root, case["pre"])
        write_sources(root, case["files"])
        base = core.run_xcp(sb, step_args(case, case["mode"]), {"log_mode": "full"})
        if not base.exit0:
            return {"inconc": ["baseline-failed"], "trace": base.stderr[-300:]}
        out = []
        for s in sites.enumerate_sites(base.events, root, only_mutating=True):
            rel = dict(s)
            rel["path"] = "@ROOT@" + s["path"][len(root):]
            for when in ("enter", "exit"):
                c = dict(case)
                c.update({"kind": "kill", "site": rel, "when": when})
                out.append(c)
        return out


def check_step(case, before, after, mode, copied, step_tag, res, killed=False, sources=None):
    """before/after: {name bytes: record} of the destination directory.  sources: the names that were sources of this very
    invocation (a name of the case that is not copied this time is an ordinary entry -- it may well be the backup that is due)."""
    step_names = list(sources) if sources is not None else list(case["names"])
    tnames = {b(x) for x in step_names}
    for en, a in before.items():
        if en in tnames:
            continue
        c = after.get(en)
        if c is None or c.get("sha") != a.get("sha") or c["ino"] != a["ino"]:
            res["viol"].append({"sig": "%s:%s:sibling-%s" % (case["driver"], case["ncls"], "lost" if c is None else "replaced"),
                                "what": "%s: %r, which is not a destination of this copy, %s (mode %s)" % (step_tag, u(en), "vanished" if c is None else "was modified or replaced", mode)})
    for nm in case["names"]:
        nb = b(nm)
        old = before.get(nb)
        targets = {b(x) for x in step_names}   # entries that are themselves copy targets are nobody's backup
        bk_before_all = backups_of(before, nb)   # byte-exact <name>.~N~, what 'such a backup already exists' means
        bk_before = {k: en for k, en in bk_before_all.items() if en not in targets}
        bk_after = {k: en for k, en in backups_of(after, nb).items() if en not in targets}
        ncls = case["ncls"]
        # no existing backup may change or vanish
        for k, en in bk_before.items():
            if u(en) in step_names:
                continue  # that entry is itself a copy target of this invocation
            a, c = before[en], after.get(en)
            if c is None or c.get("sha") != a.get("sha") or c["k"] != a["k"]:
                res["viol"].append({"sig": "%s:%s:existing-backup-%s" % (case["driver"], ncls, "lost" if c is None else "overwritten"),
                                    "what": "%s: existing backup %r of %r %s (mode %s)" % (step_tag, u(en), nm, "vanished" if c is None else "changed content", mode)})
        if nm not in copied and not killed:
            continue
        if old is None or old["k"] != "f":
            continue
        new_nums = sorted(set(bk_after) - set(bk_before))
        holders = [k for k in bk_after if after[bk_after[k]].get("sha") == old.get("sha") and after[bk_after[k]]["size"] == old["size"]]
        want = mode == "numbered" or (mode == "auto" and len(bk_before_all) > 0)
        if killed:
            still = after.get(nb)
            if mode == "numbered" or (mode == "auto" and bk_before_all):
                if not ((still and still.get("sha") == old.get("sha")) or [k for k in holders if k not in bk_before or before[bk_before[k]].get("sha") == old.get("sha")]):
                    res["viol"].append({"sig": "%s:%s:kill-lost-old-content" % (case["driver"], ncls),
                                        "what": "%s: after the kill the old content of %r is under neither the original nor a backup name" % (step_tag, nm)})
            continue
        if want:
            good = [k for k in holders if k in new_nums and (not bk_before_all or k > max(bk_before_all))]
            if not good:
                res["viol"].append({"sig": "%s:%s:%s:version-lost" % (case["driver"], ncls, mode),
                                    "what": "%s: %r was overwritten (mode %s, backups before %s) but its old content is not preserved under a new %r.~N~ with N > max; "
                                            "backups after: %s, new numbers: %s" % (step_tag, nm, mode, sorted(bk_before), nm, sorted(bk_after), new_nums)})
        else:
            if new_nums:
                res["viol"].append({"sig": "%s:%s:%s:unexpected-backup" % (case["driver"], ncls, mode),
                                    "what": "%s: mode %s with no backup of %r present (backups of that exact name before: %s) but backup(s) %s were created"
                                            % (step_tag, mode, nm, sorted(bk_before), new_nums)})


def run_history(case, res):
    with core.Sandbox(case["fs"], "c09") as sb:
        root = sb.root
        tree.materialize(root, case["pre"])
        ddir = "dst/src" if case["dircopy"] else "dst"
        nsteps = 0
        for si, st in enumerate(case["steps"]):
            write_sources(root, st["files"], subdirs=6 if (case["ncls"] == "backup-named-sibling" and case["dircopy"]) else 0)
            before = listing(root, ddir)
            else_before = listing(root, "elsewhere") if case.get("linkdest") else {}
            if case.get("listing_fault") and not case.get("refuse_rename"):
                run = core.run_supervised(sb, core.xcp_argv([a.replace("@ROOT@", root) for a in step_args(case, st["mode"], case["workers"])]),
                                          {"log_mode": "none", "rules": [{"id": "g", "sys": "getdents64", "under": root + "/dst", "action": "fault", "errno": 5, "from": case["listing_fault"]}]},
                                          cwd=step_cwd(case, root))
                if run.verdict == "exited" and run.rule("g")["applied"]:
                    res["counters"]["steps-with-listing-fault"] = res["counters"].get("steps-with-listing-fault", 0) + 1
            elif case.get("refuse_rename"):
                run = core.run_supervised(sb, core.xcp_argv([a.replace("@ROOT@", root) for a in step_args(case, st["mode"], case["workers"])]),
                                          {"log_mode": "none", "rules": [{"id": "r", "sys": sc, "under": root + "/", "action": "fault", "errno": 1} for sc in ("rename", "renameat", "renameat2")]},
                                          cwd=step_cwd(case, root))
                res["counters"]["steps-with-rename-refused"] = res["counters"].get("steps-with-rename-refused", 0) + 1
            else:
                run = core.run_plain(core.xcp_argv([a.replace("@ROOT@", root) for a in step_args(case, st["mode"], case["workers"])]), step_cwd(case, root))
            if run.verdict != "exited":
                res["inconc"].append("run-" + run.verdict)
                return
            after = listing(root, ddir)
            tag = "step %d/%d (%s, %s copy, names %s, spelled %s)" % (si + 1, len(case["steps"]), case["driver"], "dir" if case["dircopy"] else "file", case["names"], case.get("spell", "plain"))
            if case.get("linkdest"):
                # the destination name was a link to a file elsewhere: when a backup is due the link is what gets preserved, and the file it
                # points to keeps the old content; in every mode nothing else over there may change
                nb0 = b(case["names"][0])
                was_link = before.get(nb0, {}).get("k") == "l"
                due = st["mode"] == "numbered" or (st["mode"] == "auto" and backups_of(before, nb0))
                for en, a_ in else_before.items():
                    c_ = listing(root, "elsewhere").get(en)
                    if (c_ is None or c_.get("sha") != a_.get("sha")) and (due or not was_link or en != nb0):
                        res["viol"].append({"sig": "%s:%s:%s:linked-old-content-lost" % (case["driver"], case["ncls"], st["mode"]),
                                            "what": "%s: the destination was a link to elsewhere/%s and a backup was due (mode %s, backups before %s), but that file's old content is gone"
                                                    % (tag, u(en), st["mode"], sorted(backups_of(before, nb0)))})
            if not run.exit0:
                # a failing step must still not lose anything
                check_step(case, before, after, st["mode"], {}, tag + " [failed run]", res, sources=st["files"])
                res["counters"]["step-nonzero"] = res["counters"].get("step-nonzero", 0) + 1
                break
            check_step(case, before, after, st["mode"], st["files"], tag, res, sources=st["files"])
            # the copy itself
            for nm, f in st["files"].items():
                rec = after.get(b(nm))
                if rec is not None and rec["k"] == "l" and case.get("linkdest"):
                    rec = listing(root, "elsewhere").get(b(nm))     # no backup was due: the copy went through the link
                if f.get("kind") == "fifo":
                    if rec is None or rec["k"] != "fifo":
                        res["viol"].append({"sig": "%s:%s:copy-missing" % (case["driver"], case["ncls"]), "what": "%s: FIFO %r not copied" % (tag, nm)})
                    continue
                if rec is None or rec["size"] != f["size"]:
                    res["viol"].append({"sig": "%s:%s:copy-missing" % (case["driver"], case["ncls"]), "what": "%s: %r not copied" % (tag, nm)})
            nsteps += 1
            res["evals"].append({"key": [case["driver"], case["ncls"], st["mode"], case["bset"], case["dircopy"], min(si, 4), case.get("spell", "plain"), bool(case.get("linkdest")) and si == 0]})
        res["counters"]["history-steps"] = nsteps
        if res["evals"]:
            res["evals"][0]["sample"] = {"driver": case["driver"], "names": case["names"], "pre_backups": case["bset"], "dircopy": case["dircopy"],
                                         "steps": [{"mode": s["mode"], "files": sorted(s["files"])} for s in case["steps"]]}


def run_kill(case, res):
    with core.Sandbox(case["fs"], "c09") as sb:
        root = sb.root
        tree.materialize(root, case["pre"])
        write_sources(root, case["files"])
        before = listing(root, "dst/src")
        s = dict(case["site"])
        s["path"] = s["path"].replace("@ROOT@", root)
        run = core.run_xcp(sb, step_args(case, case["mode"]), {"log_mode": "none", "rules": [sites.site_rule(s, "k", action="kill", when=case["when"])]})
        if run.verdict not in ("killed", "exited"):
            res["inconc"].append("run-" + run.verdict)
            return
        if run.rule("k")["applied"] == 0:
            res["counters"]["site-missed"] = 1
            return
        after = listing(root, "dst/src")
        tag = "kill %s %s#%d (%s, mode %s)" % (case["when"], sites.site_sig(case["site"], "@ROOT@"), case["site"]["nth"], case["driver"], case["mode"])
        check_step(case, before, after, case["mode"], case["files"], tag, res, killed=True)
        res["counters"]["kills"] = 1
        res["evals"].append({"key": ["kill", case["driver"], case["ncls"], case["mode"], case["when"], sites.site_sig(case["site"], "@ROOT@"), case["site"]["nth"]],
                             "sample": {"kill": case["when"], "site": case["site"], "mode": case["mode"], "names": case["names"]}})


def run_case(case):
    res = {"evals": [], "viol": [], "inconc": [], "counters": {}}
    if case["kind"] == "history":
        run_history(case, res)
    else:
        run_kill(case, res)
    return res
