"""C12 -- progress updates are truthful, never exceed 100%, and the stream ends."""
import json
import os
import random

from .. import core, tree, model, monitors
from ..core import b, u

PROP = "C12"
LEVEL = "exploration"
RULE = ("probe_xcp (a library client written as the crate documentation shows) copies seeded trees under the ptrace supervisor: "
        "drivers x workers x block sizes x updaters {ChannelUpdater drained live or after copy(), NoopUpdater, a client-supplied "
        "recording updater, the same failing from its k-th update on} x schedules (walker-first: Size far ahead; workers-first: Copied as early as possible; main-late; pct; "
        "jitter) x I/O policies (short copy_file_range, refused copy_file_range with short read/write, a failed call). Every update "
        "is announced by a marker system call, so it has a position in the supervisor's total order. Oracle: sum(Size) == total "
        "length of the selected regular files when copy() succeeded; every prefix of the stream has sum(Copied) <= sum(Size); at "
        "every marker sum(Copied reported) <= bytes returned by completed copy_file_range/pwrite/write calls on destination files; "
        "after copy() returned the receiver is disconnected; an incomplete destination implies an Error update or an Err result. "
        "distinct_nontrivial = distinct (driver, updater, mode, block class, schedule, policy, outcome)")
ASSUMPTIONS = ["sum(Copied) == sum(Size) is not demanded (ChannelUpdater batches; sparse files report data only)",
               "the recording updater logs under its own mutex, so its order is a linearisation consistent with happens-before"]
PROBES = ("probe_xcp",)

SCHEDS = [{"sched": "free"}, {"sched": "pct", "sched_d": 2}, {"sched": "role", "role_order": "walker,dispatcher,copy,worker,main"},
          {"sched": "role", "role_order": "worker,dispatcher,walker,copy,main"}, {"sched": "role", "role_order": "worker,walker,dispatcher,copy,main"},
          {"sched": "jitter", "jitter": [300, 1500]}, {"sched": "lifo"},
          {"sched": "role", "role_order": "main,copy,dispatcher,walker,worker"}, {"sched": "role", "role_order": "main,copy,dispatcher,walker,worker"}]


def gen_cases(tier, seed):
    n = 800 if tier == "quick" else 12000
    r = random.Random(seed * 15487469 + 12)
    for i in range(16 if tier == "quick" else 200):
        driver = ["parblock", "parfile"][i % 2]
        files = [{"p": "src/big%d" % k, "k": "f", "size": (8 << 20) + k, "seed": r.randrange(1, 1 << 30), "segs": None} for k in range(1 if driver == "parblock" else 8)]
        yield {"stress": True, "spec": [{"p": "src", "k": "d"}] + files, "driver": driver, "updater": ["channel", "record"][(i // 2) % 2], "mode": "live",
               "bs": r.choice([512, 4096]), "workers": r.choice([8, 16, 32]), "fs": "tmpfs"}
    for i in range(n):
        driver = ["parfile", "parblock"][i % 2]
        upd = ["record", "channel", "record", "channel", "noop"][i % 5]
        mode = r.choice(["live", "after"])
        bs = r.choice([4096, 65536, 1000000, 2 ** 63 - 1, 7000])
        spec = [{"p": "src", "k": "d"}] + tree.gen_tree(r, depth=2, fanout=4, kinds=("f", "f", "f", "d", "l"), prefix="src", nonutf8=False, max_entries=14,
                                                        sizes=[0, 1, 4096, 10000, 70000, 300000])
        if r.random() < 0.3:
            spec.append({"p": "src/a-fifo", "k": "fifo"})
        files_ = [e["p"] for e in spec if e["k"] == "f"]
        for hk in range(r.choice([0, 0, 1, 2])):
            if files_:
                spec.append({"p": "src/hardlink%d" % hk, "k": "hard", "target": r.choice(files_)})
        if r.random() < 0.4:
            spec.append({"p": "src/sparse", "k": "f", "size": 3 << 20, "seed": r.randrange(1, 1 << 30), "segs": [[0, 5000], [2 << 20, 9000]], "sync": True})
        pol = r.choice(["none", "none", "cfr-short", "uspace", "fault", "cfr-eof", "vanish", "full-dest"])
        rules = []
        if pol == "cfr-short":
            rules.append({"id": "s", "sys": "copy_file_range", "under": "@ROOT@", "action": "short", "len": r.choice(["half", "rand", "cap:3000", "minus1"])})
        elif pol == "uspace":
            rules.append({"id": "r", "sys": "copy_file_range", "under": "@ROOT@", "action": "fault", "errno": 38, "from": r.choice([1, 2])})
            rules.append({"id": "s", "sys": "read" if driver == "parfile" else "pread64", "under": "@ROOT@", "action": "short", "len": r.choice(["half", "rand", "cap:3000"])})
        elif pol == "cfr-eof":
            # the source 'shrinks': one copy_file_range call reports end-of-file (returns 0) although bytes were requested
            rules.append({"id": "z", "sys": "copy_file_range", "under": "@ROOT@", "action": "retval", "val": 0, "nth": r.randint(1, 6)})
        elif pol == "fault":
            rules.append({"id": "f", "sys": r.choice(["copy_file_range", "openat", "ftruncate", "fchmod", "mkdir"]), "under": "@ROOT@/dst", "nth": r.randint(1, 5),
                          "action": "fault", "errno": r.choice([5, 28])})
        vanish = None
        if pol == "vanish":
            # one regular file (of a size nobody else has) is deleted by the client the moment its Size update arrives
            cands = [e for e in spec if e["k"] == "f" and not any(h.get("target") == e["p"] for h in spec if h["k"] == "hard")]
            if cands and upd != "noop":
                v = r.choice(cands)
                v["size"] = 4321 + 2 * len(spec)
                if v.get("segs"):
                    v["segs"] = None
                vanish = [v["size"], v["p"]]
            else:
                pol = "none"
        mount = None
        if pol == "full-dest":
            # the destination is a small filesystem of its own that fills up part-way (writes come back short, then fail)
            mount = "size=%s" % r.choice(["64k", "128k", "200k", "300k"])
            spec.append({"p": "src/filler", "k": "f", "size": r.choice([300000, 250001]), "seed": r.randrange(1, 1 << 30), "segs": None})
        sch = dict(r.choice(SCHEDS))
        sch["sched_seed"] = r.randrange(1 << 30)
        deref = pol == "none" and r.random() < 0.2
        if deref:
            spec = [e for e in spec if e["k"] != "l" or (e["k"] == "l" and not e["target"].startswith("no/") and not e["target"].startswith("@"))]
        onecpu = r.random() < 0.08
        # the same source named twice by the client: it is to be copied (and announced) once
        dupsrc = pol in ("none", "cfr-short") and not deref and r.random() < 0.25
        # a client-supplied updater that fails: from its k+1st update on send() answers Err (its consumer has gone away). The call has to
        # return all the same, and an incomplete destination has to come with an Err
        r2 = random.Random(seed * 7919 + i)
        if upd == "record" and pol != "vanish" and r2.random() < 0.2:
            upd = "flaky:%d" % r2.choice([0, 1, 2, 3, 5, 8, 13, 20, 40, 90])
        yield {"dupsrc": dupsrc, "mount": mount, "vanish": vanish, "onecpu": onecpu, "deref": deref, "spec": spec, "driver": driver, "updater": upd, "mode": mode, "bs": bs, "workers": 0 if onecpu or r.random() < 0.05 else r.choice([1, 2, 4, 8]), "policy": pol, "rules": rules,
               "plan": sch, "fs": "ext4"}
    # a tree far deeper than it is wide (a file on every level): everything in it is announced and copied, however far down
    for i in range(4 if tier == "quick" else 24):
        depth = [140, 200, 129, 300][i % 4]
        spec, cur = [{"p": "src", "k": "d"}], "src"
        for lv in range(depth):
            cur += "/d"
            spec.append({"p": cur, "k": "d"})
            if lv % 10 == 9 or lv == depth - 1:
                spec.append({"p": cur + "/f", "k": "f", "size": 1000 + lv, "seed": 50 + lv, "segs": None})
        yield {"dupsrc": False, "mount": None, "vanish": None, "onecpu": False, "deref": False, "spec": spec, "driver": ["parfile", "parblock"][i % 2], "updater": ["record", "channel"][(i // 2) % 2], "mode": "live",
               "bs": 4096, "workers": 2, "policy": "deep-tree", "rules": [], "plan": {"sched": "free", "sched_seed": 1}, "fs": "ext4"}
    # a source whose length is reported as 0 although it has content (the kernel's own files): whatever is announced for it, no more
    # than that may be reported as copied
    for i, path in enumerate([p_ for p_ in ["/proc/crypto", "/proc/kallsyms", "/proc/version"] if os.path.exists(p_)]):
        for driver in ("parfile", "parblock"):
            for upd in ("record", "channel"):
                yield {"unsized": path, "driver": driver, "updater": upd, "mode": ["live", "after"][i % 2], "bs": [4096, 1000, 65536][i % 3], "workers": 2, "policy": "unsized-source",
                       "plan": {"sched": "free", "sched_seed": 1}, "fs": "ext4"}
    # every worker is made to give up early (as many operations that fail by themselves as there are workers: FIFOs whose destination
    # names are non-empty directories), with hundreds of entries still to come: the call has to return and the stream to end
    for i in range(8 if tier == "quick" else 60):
        driver = ["parfile", "parblock"][i % 2]
        w = [1, 2, 4, 3][(i // 2) % 4]
        spec = [{"p": "src", "k": "d"}, {"p": "dst", "k": "d"}, {"p": "dst/src", "k": "d"}]
        for k in range(w + 1):
            spec += [{"p": "src/a%d" % k, "k": "fifo"}, {"p": "dst/src/a%d" % k, "k": "d"}, {"p": "dst/src/a%d/x" % k, "k": "f", "size": 1, "seed": 5, "segs": None}]
        spec += [{"p": "src/z%04d" % k, "k": "f", "size": r.choice([0, 10, 300]), "seed": r.randrange(1, 1 << 30), "segs": None} for k in range(r.choice([300, 700]))]
        yield {"dupsrc": False, "mount": None, "vanish": None, "onecpu": False, "deref": False, "spec": spec, "driver": driver, "updater": ["noop", "record", "channel"][i % 3], "mode": r.choice(["live", "after"]),
               "bs": 4096, "workers": w, "policy": "workers-all-fail", "rules": [], "plan": {"sched": r.choice(["free", "lifo"]), "sched_seed": r.randrange(1 << 30)}, "fs": "ext4", "predst": True}


def _deref_total(top):
    """Total length of the regular files reached when every link is followed; (total, loop) where loop tells that some link leads
    back to one of its own ancestors (the walk is cut there: such a tree has no finite image, the copy is expected to fail)."""
    import stat as _st
    total, loop = 0, False
    stack = [(top, (os.stat(top).st_dev, os.stat(top).st_ino), ())]
    while stack:
        d, ident, anc = stack.pop()
        try:
            names = os.listdir(d)
        except OSError:
            continue
        for n in names:
            p = os.path.join(d, n)
            try:
                st = os.stat(p)
            except OSError:
                continue
            if _st.S_ISREG(st.st_mode):
                total += st.st_size
            elif _st.S_ISDIR(st.st_mode):
                k = (st.st_dev, st.st_ino)
                if k == ident or k in anc:
                    loop = True
                    continue
                stack.append((p, k, anc + (ident,)))
    return total, loop


def run_stress(case, res):
    """Unsupervised: thousands of Copied updates from many workers at once (races inside the updater itself are not at
    system-call boundaries, so the supervisor cannot force them; volume and real parallelism have to)."""
    with core.Sandbox(case["fs"], "c12") as sb:
        root = sb.root
        tree.materialize(root, case["spec"])
        total = sum(e["size"] for e in case["spec"] if e["k"] == "f")
        argv = [PROBE_BIN["probe_xcp"], case["driver"], case["updater"], case["mode"], str(case["workers"]), str(case["bs"]), "--", "src", "dst"]
        run = core.run_plain(argv, root, timeout=300)
        if run.verdict != "exited":
            res["inconc"].append("run-" + run.verdict)
            return
        stream, result = [], None
        for line in run.stdout.splitlines():
            try:
                j = json.loads(line)
            except ValueError:
                continue
            if j.get("t") == "result":
                result = j
            else:
                stream.append(j)
        if result is None:
            res["inconc"].append("probe-no-result")
            return
        tag = "stress %s/%s/%s bs=%d w=%d" % (case["driver"], case["updater"], case["mode"], case["bs"], case["workers"])
        sig0 = "%s:%s" % (case["driver"], case["updater"])
        ssum = sum(j["v"] for j in stream if j["t"] == "size")
        csum = sum(j["v"] for j in stream if j["t"] == "copied")
        if result["ok"] and ssum != total:
            res["viol"].append({"sig": sig0 + ":size-sum", "what": "sum of Size updates %d != total %d; %s" % (ssum, total, tag)})
        s = c = 0
        for k, j in enumerate(stream):
            if j["t"] == "size": s += j["v"]
            elif j["t"] == "copied": c += j["v"]
            if c > s:
                res["viol"].append({"sig": sig0 + ":copied-exceeds-announced", "what": "after %d updates: Copied total %d > Size total %d; %s" % (k + 1, c, s, tag)})
                break
        if csum > total:
            res["viol"].append({"sig": sig0 + ":copied-exceeds-total", "what": "Copied updates sum to %d but only %d bytes exist to copy; %s" % (csum, total, tag)})
        if not result["disconnected"]:
            res["viol"].append({"sig": sig0 + ":channel-not-closed", "what": "copy() returned but the channel is still connected; " + tag})
        res["counters"]["stress-runs"] = 1
        res["counters"]["stress-updates-seen"] = len(stream)
        res["evals"].append({"key": ["stress", case["driver"], case["updater"], case["bs"], case["workers"]]})


def run_unsized(case, res):
    with core.Sandbox(case["fs"], "c12") as sb:
        argv = [PROBE_BIN["probe_xcp"], case["driver"], case["updater"], case["mode"], str(case["workers"]), str(case["bs"]), "--", case["unsized"], "dst"]
        run = core.run_plain(argv, sb.root, timeout=120)
        if run.verdict != "exited":
            res["inconc"].append("run-" + run.verdict)
            return
        stream, result = [], None
        for line in run.stdout.splitlines():
            try:
                j = json.loads(line)
            except ValueError:
                continue
            if j.get("t") == "result":
                result = j
            else:
                stream.append(j)
        if result is None:
            res["inconc"].append("probe-no-result")
            return
        tag = "unsized source %s; %s/%s/%s bs=%d" % (case["unsized"], case["driver"], case["updater"], case["mode"], case["bs"])
        sig0 = "%s:%s" % (case["driver"], case["updater"])
        a = c = 0
        for k, j in enumerate(stream):
            if j["t"] == "size": a += j["v"]
            elif j["t"] == "copied": c += j["v"]
            if c > a:
                res["viol"].append({"sig": sig0 + ":copied-exceeds-announced", "what": "after %d updates: Copied total %d > Size total %d; %s" % (k + 1, c, a, tag)})
                break
        if not result["disconnected"]:
            res["viol"].append({"sig": sig0 + ":channel-not-closed", "what": "copy() returned but the channel is still connected; " + tag})
        res["counters"]["unsized-sources"] = 1
        res["evals"].append({"key": [case["driver"], case["updater"], case["mode"], "unsized", case["unsized"]], "sample": {"argv": argv[1:], "updates": stream[:6], "result": result}})


def run_case(case):
    res = {"evals": [], "viol": [], "inconc": [], "counters": {}}
    if case.get("unsized"):
        run_unsized(case, res)
        return res
    if case.get("stress"):
        run_stress(case, res)
        return res
    with core.Sandbox(case["fs"], "c12") as sb:
        root = sb.root
        tree.materialize(root, case["spec"])
        if case.get("dupsrc") and not case.get("mount"):
            os.mkdir(os.path.join(root, "dst"))      # two source arguments need an existing directory to go into
        mp = None
        if case.get("mount"):
            mp = os.path.join(root, "dst")
            os.mkdir(mp)
            if not core.mount_tmpfs(mp, case["mount"]):
                res["inconc"].append("mount-unavailable")
                return res
        try:
            return _run_case_body(case, sb, res)
        finally:
            if mp:
                core.umount(mp)


def _run_case_body(case, sb, res):
    if True:
        root = sb.root
        pre = tree.snapshot(root)
        rules = []
        for x in case["rules"]:
            x = dict(x)
            x["under"] = x["under"].replace("@ROOT@", root) + "/"
            rules.append(x)
        plan = dict(case["plan"])
        plan.update({"log_mode": "full", "marker_fd": 999, "driver": case["driver"], "rules": rules, "pct_horizon": 400, "max_steps": 2000000})
        argv = [PROBE_BIN["probe_xcp"], case["driver"], case["updater"], case["mode"], str(case["workers"]), str(case["bs"])] + (["--dereference"] if case.get("deref") else []) + (["--vanish", str(case["vanish"][0]), case["vanish"][1]] if case.get("vanish") else []) + ["--", "src"] + (["src"] if case.get("dupsrc") else []) + ["dst"]
        if case.get("onecpu"):
            argv = ["taskset", "-c", "2"] + argv      # a process that may use a single CPU (container / affinity mask); workers = 0 then means 'one'
        run = core.run_supervised(sb, argv, plan)
        if run.verdict == "deadlock":
            # (every thread blocked in a call without a timeout, nothing moving: not a matter of patience)
            res["viol"].append({"sig": "%s:%s:never-ends" % (case["driver"], case["updater"].split(":")[0]), "what": "copy() never returned and the stream never ended: %s; %s/%s/%s w=%d policy=%s"
                                % (run.summary.get("detail", "")[:300], case["driver"], case["updater"], case["mode"], case["workers"], case["policy"])})
            return res
        if run.verdict != "exited":
            res["inconc"].append("run-" + run.verdict)
            return res
        stream, result = [], None
        for line in run.stdout.splitlines():
            try:
                j = json.loads(line)
            except ValueError:
                continue
            if j.get("t") == "result":
                result = j
            else:
                stream.append(j)
        if result is None:
            res["inconc"].append("probe-no-result")
            return res
        tag = "%s/%s/%s bs=%d w=%d sched=%s policy=%s" % (case["driver"], case["updater"], case["mode"], case["bs"], case["workers"], case["plan"]["sched"], case["policy"])
        sig0 = "%s:%s" % (case["driver"], case["updater"].split(":")[0])
        flaky = case["updater"].startswith("flaky:")
        post = tree.snapshot(root)
        mapping, _ = model.map_sources(pre, root, ["src"], "dst")
        files = [m for m in mapping if m["rec"]["k"] == "f"]
        total = sum(m["rec"]["size"] for m in files)
        incomplete = bool(model.check_mirror(pre, post, mapping))
        if case.get("deref"):
            # every link stands for what it points to: sizes follow stat(), and the mirror oracle of C13 is not repeated here
            total, link_loop = _deref_total(os.path.join(b(root), b"src"))
            incomplete = False
        got_error = any(j["t"] == "error" for j in stream)
        # (5) incomplete destination => Error update or Err (also when an in-kernel copy reported an early end of the source: D37)
        if incomplete and result["ok"] and not got_error:
            res["viol"].append({"sig": sig0 + ":incomplete-without-error", "what": "destination incomplete but copy() returned Ok and no Error update was delivered; %s; %s"
                                % (model.check_mirror(pre, post, mapping)[0][1], tag)})
        # (4) stream ends
        if not result["disconnected"]:
            res["viol"].append({"sig": sig0 + ":channel-not-closed", "what": "copy() returned but the update channel is still connected; " + tag})
        if case["updater"] != "noop":
            ssum = sum(j["v"] for j in stream if j["t"] == "size")
            # (1)
            if flaky:
                res["counters"]["runs-with-a-failing-client-updater"] = 1
                res["counters"]["failing-updater-refusals-seen"] = sum(1 for ev in run.events if ev.get("ph") == "E" and ev["sys"] == "write" and ev.get("fd") == 999 and ev.get("data", "").startswith("F refused"))
            if result["ok"] and not got_error and ssum != total and not (case.get("deref") and link_loop) and not flaky:
                res["viol"].append({"sig": sig0 + ":size-sum", "what": "sum of Size updates %d != total length of selected regular files %d; %s" % (ssum, total, tag)})
            # (2) prefix: copied <= announced
            s = c = 0
            for k, j in enumerate(stream):
                if j["t"] == "size": s += j["v"]
                elif j["t"] == "copied": c += j["v"]
                if c > s:
                    res["viol"].append({"sig": sig0 + ":copied-exceeds-announced", "what": "after %d updates: Copied total %d > Size total %d; %s" % (k + 1, c, s, tag)})
                    break
            # (3) reported <= transferred at each marker
            transferred = 0
            reported = 0
            nmark = 0
            for ev in run.events:
                if ev.get("ph") == "X" and ev["sys"] in ("copy_file_range", "pwrite64", "write") and ev.get("ret", 0) > 0:
                    p = monitors.rel(ev.get("fdpath"), root)
                    if p and p.startswith("dst"):
                        transferred += ev["ret"]
                elif ev.get("ph") == "E" and ev["sys"] == "write" and ev.get("fd") == 999 and "data" in ev:
                    d = ev["data"].split()
                    if len(d) == 3 and d[1] == "copied":
                        nmark += 1
                        reported += int(d[2])
                        if reported > transferred:
                            res["viol"].append({"sig": sig0 + ":reported-exceeds-transferred", "what": "at marker seq %d: %d bytes reported as copied but only %d transferred by completed calls; %s"
                                                % (ev["seq"], reported, transferred, tag)})
                            break
            # (4') nothing is sent once copy() has returned (the recording updater announces each send as it happens)
            if case["updater"] == "record" or flaky:
                returned = None
                for ev in run.events:
                    if ev.get("ph") == "E" and ev["sys"] == "write" and ev.get("fd") == 999 and "data" in ev:
                        if ev["data"].startswith("C returned"):
                            returned = ev["seq"]
                            res["counters"]["return-markers"] = 1
                        elif returned is not None and ev["data"][:2] in ("U ", "F "):
                            res["viol"].append({"sig": sig0 + ":update-after-return", "what": "update '%s' was sent (seq %d) after copy() had returned (seq %d): the stream had not ended when the call finished; result %s; %s"
                                                % (ev["data"][2:], ev["seq"], returned, "Ok" if result["ok"] else "Err(" + result["err"][:60] + ")", tag)})
                            break
            res["counters"]["markers-checked"] = nmark
            res["counters"]["updates-seen"] = len(stream)
            if stream and not nmark and any(j["t"] == "copied" for j in stream):
                res["inconc"].append("markers-missing")
        outcome = "ok" if result["ok"] and not got_error else "error"
        res["counters"]["copy-" + outcome] = 1
        res["counters"]["dest-incomplete"] = int(incomplete)
        res["evals"].append({"key": [case["driver"], case["updater"].split(":")[0], case["mode"], "np" if case["bs"] > 1 << 40 else case["bs"], case["plan"]["sched"], case["policy"], outcome],
                             "sample": {"argv": argv[1:], "sched": case["plan"], "policy": case["rules"], "updates": stream[:8], "n_updates": len(stream), "result": result,
                                        "total_bytes": total}})
    return res
