"""C15 -- reflink modes keep their contract: never clones, always insists, auto falls back."""
import os
import random

from .. import core, tree, model, monitors
from ..core import b, u

PROP = "C15"
LEVEL = "fault_enumeration"
RULE = ("seeded trees (empty, 1-byte, multi-block and sparse files in nested directories) x driver x --reflink {never, always, auto} x "
        "answer to the FICLONE ioctl: the real kernel (EOPNOTSUPP on ext4 and tmpfs), each 'unsupported' errno (EOPNOTSUPP, EINVAL, "
        "EXDEV, ETXTBSY) for all files, a hard EIO, a successful clone emulated by the supervisor for all files, or emulated success "
        "for some files and 'unsupported' for the others. Offline monitor per destination inode over the system-call trace: never => "
        "no FICLONE/FICLONERANGE at all; always + exit 0 => exactly one successful FICLONE on every destination file and no "
        "copy_file_range/write/pwrite on it; always + clone unsupported => exit != 0; auto => the FICLONE attempt precedes every data "
        "call on that file, and when cloning is unavailable the run exits 0 with byte-identical files. distinct_nontrivial = distinct "
        "(driver, mode, answer class, outcome)")
ASSUMPTIONS = ["no filesystem in this sandbox supports reflink: the success path only runs under the supervisor's emulation "
               "(the ioctl is suppressed, the supervisor copies source to destination through /proc/<tid>/fd and returns 0)"]

EOPNOTSUPP, EINVAL, EXDEV, ETXTBSY, EIO = 95, 22, 18, 26, 5
DATA = ("copy_file_range", "write", "pwrite64", "writev")


def gen_cases(tier, seed):
    n = 330 if tier == "quick" else 6000
    r = random.Random(seed * 67867979 + 15)
    answers = ["kernel", "eopnotsupp", "einval", "exdev", "etxtbsy", "eio", "cloneok", "cloneok", "mixed", "mixed", "enotty", "enosys"]
    for i in range(n):
        driver = ["parfile", "parblock"][i % 2]
        mode = ["never", "always", "auto"][(i // 2) % 3]
        ans = answers[(i // 6) % len(answers)]
        nf = r.randint(1, 6)
        spec = [{"p": "src", "k": "d"}, {"p": "src/d", "k": "d"}]
        for j in range(nf):
            kind = r.choice(["empty", "tiny", "multi", "multi", "sparse"])
            p = r.choice(["src/f%d", "src/d/f%d"]) % j
            if kind == "sparse":
                spec.append({"p": p, "k": "f", "size": 3 << 20, "seed": r.randrange(1, 1 << 30), "segs": [[4096, 9000], [2 << 20, 100]], "sync": True})
            else:
                spec.append({"p": p, "k": "f", "size": {"empty": 0, "tiny": 1, "multi": r.choice([70000, 200001])}[kind], "seed": r.randrange(1, 1 << 30), "segs": None})
        # now and then the destination path of one file is already occupied by something that is not a regular file (a character
        # device like /dev/null, a FIFO would block): the mode's contract is the same
        devdest = r.random() < 0.12
        # ... or the destination already holds an older, fully written (and longer) version of every file: nothing of it may show
        # through, whichever way the new content gets there
        older = not devdest and r.random() < 0.3
        yield {"older": older, "devdest": devdest, "spec": spec, "driver": driver, "mode": mode, "answer": ans, "okfiles": sorted(r.sample(range(nf), r.randint(1, nf))) if ans == "mixed" else None,
               "args": ["--driver", driver, "-w", str(r.choice([0, 1, 2, 4])), "--block-size", r.choice(["32KB", "32KB", "2KB", "4096", "1MB"]), "--reflink", r.choice([mode, mode, mode.upper(), mode.capitalize()]), "-r", "src", "dst"],
               "fs": "tmpfs" if r.random() < 0.2 else "ext4", "sched": r.choice(["free", "pct"]), "sseed": r.randrange(1 << 30),
               # verbose logging whose output cannot be written (full disk behind a redirection, reader gone): the mode's contract is unchanged
               "logfail": r.choice([None, None, None, None, None, "stdout", "stderr", "both"]), "verbose": r.choice(["-v", "-vv", "-vvv"])}
    for path in [p_ for p_ in ("/proc/version", "/proc/crypto") if os.path.exists(p_)]:
        for driver in ("parfile", "parblock"):
            for mode, spelled in (("auto", None), ("auto", "auto"), ("never", "never"), ("always", "always")):
                yield {"unsized": path, "driver": driver, "mode": mode, "fs": "ext4",
                       "args": ["--driver", driver, "-w", "2"] + (["--reflink", spelled] if spelled else []) + [path, "copy"]}


def run_unsized(case, res):
    """A source on procfs (length unknown, no clone possible, no fsync either): the modes keep their contract there too."""
    with core.Sandbox(case["fs"], "c15") as sb:
        root = sb.root
        run = core.run_xcp(sb, case["args"], {"log_mode": "full", "rules": []})
        if run.verdict != "exited":
            res["inconc"].append("run-" + run.verdict)
            return res
        mode = case["mode"]
        tag = "driver=%s mode=%s source=%s exit=%d" % (case["driver"], mode, case["unsized"], run.status)
        sig0 = "%s:%s:unsized-source" % (case["driver"], mode)
        clones = [ent for ent, ex in core.pairs(run.events) if ent["sys"] == "ioctl" and ent["a"][1] in (core.FICLONE, 0x4020940d)]
        res["counters"]["clone-requests-seen"] = len(clones)
        got = None
        try:
            got = open(os.path.join(root, "copy"), "rb").read()
        except OSError:
            pass
        want = open(case["unsized"], "rb").read()
        same = got is not None and len(got) == len(want) and got[:512] == want[:512]
        if mode == "never":
            if clones:
                res["viol"].append({"sig": sig0 + ":clone-issued", "what": "--reflink=never but %d clone request(s) were issued; %s" % (len(clones), tag)})
            if not run.exit0:
                res["viol"].append({"sig": sig0 + ":never-failed", "what": "--reflink=never must copy the bytes: %s; %s" % (run.stderr[-200:], tag)})
        elif mode == "always":
            if run.exit0:
                res["viol"].append({"sig": sig0 + ":exit0-although-unsupported", "what": "--reflink=always from procfs cannot clone, yet exit 0; %s" % tag})
        else:
            if not run.exit0:
                res["viol"].append({"sig": sig0 + ":auto-did-not-fall-back", "what": "--reflink=auto with cloning unavailable must fall back and exit 0: %s; %s" % (run.stderr[-200:], tag)})
            elif not clones:
                res["viol"].append({"sig": sig0 + ":no-clone-attempt", "what": "--reflink=auto exited 0 but never tried to clone; %s" % tag})
        if run.exit0 and not same:
            res["viol"].append({"sig": sig0 + ":bytes", "what": "exit 0 but the copy has %s bytes, the source %d; %s" % ("no" if got is None else len(got), len(want), tag)})
        res["counters"]["unsized-source-runs"] = 1
        res["counters"]["exit0" if run.exit0 else "nonzero"] = 1
        res["evals"].append({"key": [case["driver"], mode, "unsized-source", "exit0" if run.exit0 else "nonzero"], "sample": {"args": case["args"], "exit": run.status, "clone_requests": len(clones)}})
    return res


def run_case(case):
    res = {"evals": [], "viol": [], "inconc": [], "counters": {}}
    if case.get("unsized"):
        return run_unsized(case, res)
    with core.Sandbox(case["fs"], "c15") as sb:
        root = sb.root
        tree.materialize(root, case["spec"])
        if case.get("devdest"):
            f0 = [e for e in case["spec"] if e["k"] == "f"][0]["p"]
            tree.materialize(root, [{"p": "dst", "k": "d"}, {"p": "dst/src", "k": "d"}, {"p": "dst/src/d", "k": "d"}, {"p": "dst/" + f0, "k": "chr", "rdev": [1, 3], "mode": 0o666}])
        if case.get("older"):
            tree.materialize(root, [{"p": "dst", "k": "d"}, {"p": "dst/src", "k": "d"}, {"p": "dst/src/d", "k": "d"}] +
                             [{"p": "dst/" + e["p"], "k": "f", "size": e["size"] + 12345, "seed": 4242 + k, "segs": None} for k, e in enumerate(case["spec"]) if e["k"] == "f"])
            res["counters"]["runs-over-an-older-copy"] = 1
        pre = tree.snapshot(root)
        ans = case["answer"]
        rules = []
        U = root + "/"
        if ans in ("eopnotsupp", "einval", "exdev", "etxtbsy", "eio", "enotty", "enosys"):
            rules.append({"id": "c", "sys": "ioctl", "iocmd": core.FICLONE, "under": U, "action": "fault",
                          "errno": {"eopnotsupp": EOPNOTSUPP, "einval": EINVAL, "exdev": EXDEV, "etxtbsy": ETXTBSY, "eio": EIO, "enotty": 25, "enosys": 38}[ans]})
        elif ans == "cloneok":
            rules.append({"id": "c", "sys": "ioctl", "iocmd": core.FICLONE, "under": U, "action": "cloneok"})
        elif ans == "mixed":
            files = [e for e in case["spec"] if e["k"] == "f"]
            where = {m["src"]: m["dst"] for m in model.map_sources(pre, root, ["src"], "dst")[0]}
            for j in case["okfiles"]:
                rules.append({"id": "ok%d" % j, "sys": "ioctl", "iocmd": core.FICLONE, "suffix": "/" + where[files[j]["p"]], "action": "cloneok"})
            rules.append({"id": "no", "sys": "ioctl", "iocmd": core.FICLONE, "under": U, "action": "fault", "errno": EOPNOTSUPP})
        plan = {"log_mode": "full", "rules": rules, "sched": case["sched"], "sched_seed": case["sseed"], "pct_horizon": 300}
        args_ = list(case["args"])
        if case.get("logfail"):
            args_.insert(0, case["verbose"])
            if case["logfail"] in ("stdout", "both"):
                plan["stdout_to"] = "/dev/full"
            if case["logfail"] in ("stderr", "both"):
                plan["stderr_to"] = "/dev/full"
            res["counters"]["runs-with-unwritable-log"] = 1
        run = core.run_xcp(sb, args_, plan)
        if run.verdict != "exited":
            res["inconc"].append("run-" + run.verdict)
            return res
        post = tree.snapshot(root)
        mapping, _ = model.map_sources(pre, root, ["src"], "dst")
        files = [m for m in mapping if m["rec"]["k"] == "f"]
        mode = case["mode"]
        tag = "driver=%s mode=%s answer=%s exit=%d fs=%s" % (case["driver"], mode, ans, run.status, case["fs"])
        sig0 = "%s:%s:%s%s%s" % (case["driver"], mode, ans, ":unwritable-log" if case.get("logfail") else "", ":device-in-place" if case.get("devdest") else "")
        # per destination path: ordered list of (kind, seq, ret)
        seqs = {}
        nclone = 0
        for ent, ex in core.pairs(run.events):
            p = monitors.rel(ent.get("fdpath"), root)
            if ent["sys"] == "ioctl" and ent["a"][1] in (core.FICLONE, 0x4020940d):
                nclone += 1
                if p:
                    seqs.setdefault(p, []).append(("clone", ent["seq"], ex.get("ret") if ex else None))
            elif ent["sys"] in DATA and p and p.startswith("dst"):
                seqs.setdefault(p, []).append(("data", ent["seq"], ex.get("ret") if ex else None))
        res["counters"]["clone-requests-seen"] = nclone
        # (ENOTTY is what filesystems without the request answered before Linux 4.5, ENOSYS what a filter or an emulation layer answers)
        unavailable = ans in ("kernel", "eopnotsupp", "einval", "exdev", "etxtbsy", "enotty", "enosys")
        if mode == "never":
            if nclone:
                res["viol"].append({"sig": sig0 + ":clone-issued", "what": "--reflink=never but %d clone request(s) were issued; %s" % (nclone, tag)})
        elif mode == "always":
            if run.exit0:
                for m in files:
                    ev = seqs.get(m["dst"], [])
                    okc = [e for e in ev if e[0] == "clone" and e[2] == 0]
                    datac = [e for e in ev if e[0] == "data"]
                    if len(okc) < 1:
                        res["viol"].append({"sig": sig0 + ":exit0-without-clone", "what": "--reflink=always exited 0 but %s was not produced by a successful clone (events %s); %s" % (m["dst"], ev[:5], tag)})
                    elif datac:
                        res["viol"].append({"sig": sig0 + ":data-copy-with-always", "what": "--reflink=always but %s also received %d data call(s); %s" % (m["dst"], len(datac), tag)})
                some_refused = ans == "mixed" and len(case["okfiles"]) < len([e for e in case["spec"] if e["k"] == "f"])
                if unavailable or ans == "eio" or some_refused:
                    res["viol"].append({"sig": sig0 + ":exit0-although-unsupported", "what": "--reflink=always and cloning answered %s, yet exit 0; %s" % (ans, tag)})
        else:  # auto
            for m in files:
                ev = seqs.get(m["dst"], [])
                firstdata = min([e[1] for e in ev if e[0] == "data"], default=None)
                firstclone = min([e[1] for e in ev if e[0] == "clone"], default=None)
                if firstdata is not None and (firstclone is None or firstclone > firstdata):
                    res["viol"].append({"sig": sig0 + ":data-before-clone-attempt", "what": "--reflink=auto: data call on %s at seq %s before/without its clone attempt (%s); %s"
                                        % (m["dst"], firstdata, firstclone, tag)})
                if run.exit0 and firstclone is None:
                    res["viol"].append({"sig": sig0 + ":no-clone-attempt", "what": "--reflink=auto exited 0 but never tried to clone %s; %s" % (m["dst"], tag)})
                okc = [e for e in ev if e[0] == "clone" and e[2] == 0]
                if okc and [e for e in ev if e[0] == "data" and e[1] > okc[0][1]]:
                    res["viol"].append({"sig": sig0 + ":data-after-successful-clone", "what": "--reflink=auto: %s was cloned and then copied again; %s" % (m["dst"], tag)})
            if unavailable and not run.exit0 and not case.get("devdest"):      # (a device in the way makes the run fail for other reasons)
                res["viol"].append({"sig": sig0 + ":auto-did-not-fall-back", "what": "--reflink=auto with cloning unavailable (%s) must fall back and exit 0: %s; %s" % (ans, run.stderr[-200:], tag)})
        if run.exit0 and not case.get("devdest"):
            for frag, msg in model.check_mirror(pre, post, files):
                res["viol"].append({"sig": sig0 + ":" + frag, "what": "exit 0 but " + msg + "; " + tag})
        res["counters"]["exit0" if run.exit0 else "nonzero"] = 1
        res["evals"].append({"key": [case["driver"], mode, ans, "exit0" if run.exit0 else "nonzero"] + (["unwritable-log"] if case.get("logfail") else []),
                             "sample": {"args": case["args"], "answer": ans, "rules": rules[:3], "exit": run.status, "clone_requests": nclone,
                                        "per_file": {p: [e[0] + ":" + str(e[2]) for e in ev[:4]] for p, ev in list(seqs.items())[:3]}}})
    return res
