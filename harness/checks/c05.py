"""C05 -- correct under short I/O counts and absent kernel copy / clone / extent support."""
import os
import random

from .. import core, tree, model
from ..core import b, u
from .c01 import gen_file, size_class

PROP = "C05"
LEVEL = "fault_enumeration"
RULE = ("C01's size/layout/block matrix run under the ptrace supervisor with one I/O policy per execution: the length of "
        "copy_file_range / read / write / pread64 / pwrite64 on sandbox files is reduced at system-call entry (1 byte, len-1, "
        "half, random, cap N; at every call or only at the k-th) so the real kernel performs a genuinely short transfer; "
        "copy_file_range refused with ENOSYS/EXDEV/EPERM from the first or the k-th call (forcing the userspace fallbacks, "
        "which are then clamped too); FICLONE answered EOPNOTSUPP/EINVAL/EXDEV; FIEMAP answered EOPNOTSUPP (plus tmpfs, which "
        "really has no FIEMAP); read answered EINTR once. The portable back end is driven through a libfs-only probe built "
        "with default-features=false under the same clamps. Oracle: exit 0 => destination byte-exact; exit != 0 allowed. "
        "distinct_nontrivial = distinct (target, driver/api, policy, size class, layout) among runs where a rule was applied")
ASSUMPTIONS = ["every legal short return at every call is sampled (extremes + random interior points), not enumerated",
               "the xcp binary cannot be built on libfs's portable back end (cargo feature unification through libxcp), "
               "so that back end is exercised at the libfs API"]
PROBES = ("probe_fs_fallback", "probe_fs")

ENOSYS, EXDEV, EPERM, EOPNOTSUPP, EINVAL, EINTR = 38, 18, 1, 95, 22, 4

LENPOL = ["one", "minus1", "half", "rand", "cap:1000", "cap:4096", "cap:65536"]


def policies(r, driver, root_ph="@ROOT@"):
    """One random I/O policy: (name, rules)."""
    U = root_ph
    kind = r.choice(["cfr-short", "cfr-short", "cfr-short-kth", "cfr-refuse", "cfr-refuse-kth", "uspace-short", "uspace-short",
                     "ficlone", "fiemap", "eintr", "mix", "mix", "short-then-refuse", "cfr-transient", "seek-unsupported", "seek-unsupported",
                     "cfr-zero-kth"])
    lp = r.choice(LENPOL)
    rules = []
    if kind == "cfr-short":
        rules.append({"id": "s", "sys": "copy_file_range", "under": U, "action": "short", "len": lp})
    elif kind == "cfr-short-kth":
        rules.append({"id": "s", "sys": "copy_file_range", "under": U, "action": "short", "len": lp, "nth": r.randint(1, 4)})
    elif kind == "cfr-zero-kth":
        # the shortest count of all: one in-kernel copy moves nothing (what the kernel answers when the source has ended early)
        rules.append({"id": "s", "sys": "copy_file_range", "under": U, "action": "retval", "val": 0, "nth": r.randint(1, 4)})
    elif kind == "cfr-refuse":
        rules.append({"id": "s", "sys": "copy_file_range", "under": U, "action": "fault", "errno": r.choice([ENOSYS, EXDEV, EPERM])})
    elif kind == "cfr-refuse-kth":
        rules.append({"id": "s", "sys": "copy_file_range", "under": U, "action": "fault", "errno": r.choice([ENOSYS, EXDEV, EPERM]),
                      "from": r.randint(2, 5)})
    elif kind == "uspace-short":
        rules.append({"id": "r", "sys": "copy_file_range", "under": U, "action": "fault", "errno": r.choice([ENOSYS, EXDEV, EPERM]),
                      "from": r.choice([1, 1, 2, 3])})
        calls = ["read", "write"] if driver == "parfile" else ["pread64", "pwrite64"]
        for i, s in enumerate(r.sample(calls, r.randint(1, 2))):
            rules.append({"id": "s%d" % i, "sys": s, "under": U, "action": "short", "len": r.choice(LENPOL)})
    elif kind == "short-then-refuse":
        rules.append({"id": "r", "sys": "copy_file_range", "under": U, "action": "fault", "errno": r.choice([ENOSYS, EXDEV, EPERM]), "from": 2})
        rules.append({"id": "s", "sys": "copy_file_range", "under": U, "action": "short", "len": r.choice(["half", "rand", "cap:4096", "minus1"])})
    elif kind == "ficlone":
        rules.append({"id": "s", "sys": "ioctl", "iocmd": core.FICLONE, "under": U, "action": "fault",
                      "errno": r.choice([EOPNOTSUPP, EINVAL, EXDEV])})
    elif kind == "fiemap":
        rules.append({"id": "s", "sys": "ioctl", "iocmd": core.FIEMAP, "under": U, "action": "fault", "errno": EOPNOTSUPP})
    elif kind == "seek-unsupported":
        # the filesystem cannot tell data from holes (SEEK_DATA / SEEK_HOLE answer EINVAL), with or without an extent map
        rules.append({"id": "s", "sys": "lseek", "under": U, "action": "fault", "errno": 22})
        if r.random() < 0.5:
            rules.append({"id": "s3", "sys": "ioctl", "iocmd": core.FIEMAP, "under": U, "action": "fault", "errno": EOPNOTSUPP})
    elif kind == "cfr-transient":
        # one in-kernel copy is interrupted or asked to try again: not a count, not a refusal
        rules.append({"id": "s", "sys": "copy_file_range", "under": U, "action": "fault", "errno": r.choice([EINTR, 11]), "nth": r.randint(1, 5)})
    elif kind == "eintr":
        rules.append({"id": "r", "sys": "copy_file_range", "under": U, "action": "fault", "errno": ENOSYS})
        rules.append({"id": "s", "sys": "read" if driver == "parfile" else "pread64", "under": U, "action": "fault", "errno": EINTR, "nth": r.randint(1, 3)})
    else:
        # the refusal rule comes first: calls before `from` are shortened, later ones refused (a refusal part-way through a block)
        rules.append({"id": "r", "sys": "copy_file_range", "under": U, "action": "fault", "errno": r.choice([ENOSYS, EXDEV, EPERM]), "from": r.randint(2, 4)})
        rules.append({"id": "s", "sys": "copy_file_range", "under": U, "action": "short", "len": lp})
        rules.append({"id": "s2", "sys": "read" if driver == "parfile" else "pread64", "under": U, "action": "short", "len": r.choice(LENPOL)})
        rules.append({"id": "s3", "sys": "ioctl", "iocmd": core.FIEMAP, "under": U, "action": "fault", "errno": EOPNOTSUPP})
    name = kind + (":" + lp if "short" in kind or kind == "mix" else "")
    return name, rules


def gen_cases(tier, seed):
    n = 840 if tier == "quick" else 16000
    r = random.Random(seed * 2750159 + 5)
    blocks = [("512", 512), ("4096", 4096), ("64KB", 65536), ("1MB", 1000000), ("np", None), ("7", 7)]
    for i in range(n):
        bname, bsv = blocks[i % len(blocks)]
        driver = ["parblock", "parfile"][(i // len(blocks)) % 2]
        pname, rules = policies(r, driver)
        f = gen_file(r, bsv, 0, False)
        if pname == "fiemap":
            driver = "parblock"
            for _ in range(20):
                if f["segs"]:
                    break
                f = gen_file(r, 65536, 0, False)
        one_byte = any(x.get("len") == "one" for x in rules)
        small_cap = any(x.get("len", "") in ("cap:1000", "cap:4096") for x in rules)
        limit = 3000 if one_byte else (300000 if small_cap else 1500000)
        if bsv is not None and bsv <= 512:
            limit = min(limit, 40000)
        if f["segs"] is not None and (one_byte or small_cap or (bsv is not None and bsv <= 512)):
            # hole-skipping may be switched off by the policy (FIEMAP refused, tmpfs): keep the apparent size small too
            f = gen_file(random.Random(r.randrange(1 << 30)), 7, 0, False)
        if f["segs"] is None:
            f["size"] = min(f["size"], limit)
        else:
            f["segs"] = [[o, min(l, limit)] for o, l in f["segs"]]
        args = ["--driver", driver, "-w", str(r.choice([1, 2, 4])), "--reflink", "auto"]
        args += ["--no-progress"] if bsv is None else ["--block-size", str(bsv)]
        extra_files = []
        if r.random() < 0.35:
            # more files in the same run: whatever the driver remembers about the first file's I/O must not leak into the next
            for k in range(1, r.randint(2, 3)):
                g = gen_file(r, bsv, k, False)
                if g["segs"] is None:
                    g["size"] = min(g["size"], limit)
                else:
                    g = dict(f, p="src/f%d" % k, seed=r.randrange(1, 1 << 30))
                extra_files.append(g)
            args += ["-r", "src", "dst"]
        else:
            args += [f["p"], "dst"]
        yield {"kind": "xcp", "fs": "tmpfs" if r.random() < 0.25 else "ext4", "spec": [{"p": "src", "k": "d"}, f] + extra_files, "args": args,
               "driver": driver, "block": bname, "bsv": bsv, "policy": pname, "rules": rules}
    # blocks of tens of MiB through the fallback paths (kernel copy refused, or refused after a first short chunk)
    for i in range(10 if tier == "quick" else 80):
        driver = ["parblock", "parfile"][i % 2]
        bname, bsv = r.choice([("np", None), ("25MB", 25165824), ("32MB", 32000000)])
        size = r.choice([(17 << 20) + 3, 25165824, (40 << 20) + 4097, 30000001])
        f = {"p": "src/f0", "k": "f", "seed": r.randrange(1, 1 << 30), "segs": None, "size": size, "sync": False, "layout": "dense"}
        kind = r.choice(["cfr-refuse", "cfr-refuse", "short-then-refuse", "cfr-short"])
        if kind == "cfr-refuse":
            rules = [{"id": "s", "sys": "copy_file_range", "under": "@ROOT@", "action": "fault", "errno": r.choice([ENOSYS, EXDEV, EPERM])}]
        elif kind == "short-then-refuse":
            rules = [{"id": "r", "sys": "copy_file_range", "under": "@ROOT@", "action": "fault", "errno": r.choice([ENOSYS, EXDEV]), "from": 2},
                     {"id": "s", "sys": "copy_file_range", "under": "@ROOT@", "action": "short", "len": "cap:5000000"}]
        else:
            rules = [{"id": "s", "sys": "copy_file_range", "under": "@ROOT@", "action": "short", "len": "half"}]
        args = ["--driver", driver, "-w", str(r.choice([1, 2, 4])), "--reflink", "never"] + (["--no-progress"] if bsv is None else ["--block-size", str(bsv)]) + ["src/f0", "dst"]
        yield {"kind": "xcp", "fs": ["tmpfs", "ext4"][(i // 2) % 2], "spec": [{"p": "src", "k": "d"}, f], "args": args,
               "driver": driver, "block": bname, "bsv": bsv, "policy": kind + ":bigblock", "rules": rules}
    # a dense file longer than the kernel moves in one call (2 GiB - 4 KiB), copied as one block: the short count comes by itself
    # (preallocated, with data at the start, around the 2 GiB mark and at the end, so that it is quick to make)
    for i in range(2 if tier == "quick" else 6):
        driver = ["parblock", "parfile"][i % 2]
        size = (2 << 30) + (5 << 20) + [3, 0, 4096][i % 3]
        f = {"p": "src/f0", "k": "f", "seed": r.randrange(1, 1 << 30), "size": size, "segs": [[0, 4096], [(2 << 30) - 8192, 16384], [size - 5000, 5000]], "falloc": [[0, size]], "sync": True,
             "layout": "dense-beyond-2GiB"}
        bname, bsv = [("np", None), ("np", None), ("3GB", 3000000000)][i % 3]
        args = ["--driver", driver, "-w", str([1, 4][i % 2]), "--reflink", "never"] + (["--no-progress"] if bsv is None else ["--block-size", str(bsv)]) + ["src/f0", "dst"]
        yield {"kind": "xcp", "fs": "ext4", "spec": [{"p": "src", "k": "d"}, f], "args": args, "driver": driver, "block": bname, "bsv": bsv, "policy": "none:beyond-2GiB", "rules": []}
    # sources of reported length 0 (the kernel's own files): their content arrives in short reads by nature
    for i, path in enumerate([p_ for p_ in ["/proc/crypto", "/proc/kallsyms", "/proc/version", "/proc/filesystems"] if os.path.exists(p_)]):
        for driver in ("parfile", "parblock"):
            for pol, rules in (("none", []), ("read-short", [{"id": "s", "sys": "read", "action": "short", "len": ["half", "cap:1000", "minus1", "rand"][i % 4]}]),
                               ("write-short", [{"id": "s", "sys": "write", "action": "short", "len": ["cap:1000", "half", "rand", "minus1"][i % 4]}])):
                yield {"unsized": path, "kind": "unsized", "fs": ["ext4", "tmpfs"][i % 2], "driver": driver, "policy": pol, "rules": rules,
                       "args": ["--driver", driver, "-w", "2"] + [["--block-size", "4096"], ["--no-progress"], [], ["--block-size", "7"]][i % 4] + [path, "dst"]}
    # portable back end through the libfs-only probe
    m = 120 if tier == "quick" else 3000
    for i in range(m):
        api = ["copy_file", "copy_bytes", "copy_offset"][i % 3]
        bsv = r.choice([512, 4096, 65536, 1000000])
        f = gen_file(r, bsv, 0, False)
        if f["segs"] is not None:
            f["segs"] = [[o, min(l, 200000)] for o, l in f["segs"]]
            if f["size"] > (32 << 20):
                f["size"] = 32 << 20
                f["segs"] = [s for s in f["segs"] if s[0] + s[1] <= f["size"]]
        rules = []
        pol = r.choice(["none", "short", "short", "short", "eintr"])
        calls = ["pread64", "pwrite64"] if api == "copy_offset" else ["read", "write"]
        probe = "probe_fs_fallback" if i % 4 else "probe_fs"
        if probe == "probe_fs" and pol != "none":
            rules.append({"id": "r", "sys": "copy_file_range", "under": "@ROOT@", "action": "fault", "errno": r.choice([ENOSYS, EXDEV, EPERM]),
                          "from": r.choice([1, 1, 2])})
        if pol == "short":
            for k, s in enumerate(r.sample(calls, r.randint(1, 2))):
                rules.append({"id": "s%d" % k, "sys": s, "under": "@ROOT@", "action": "short", "len": r.choice(LENPOL[1:])})
        elif pol == "eintr":
            rules.append({"id": "s", "sys": calls[0], "under": "@ROOT@", "action": "fault", "errno": EINTR, "nth": 1})
        yield {"kind": "probe", "probe": probe, "fs": "ext4", "spec": [{"p": "src", "k": "d"}, f],
               "api": api, "bsv": bsv, "policy": pol, "rules": rules}


def run_unsized(case, res):
    """A source whose length the kernel reports as 0 and whose content it hands out a page of records at a time (short reads by
    nature), optionally with the reads / writes clamped further."""
    with core.Sandbox(case["fs"], "c05") as sb:
        want = open(case["unsized"], "rb").read()
        if want != open(case["unsized"], "rb").read():
            res["inconc"].append("unsized-source-not-stable")
            return res
        rules = [dict(x, under=("/proc/" if x["sys"] in ("read", "pread64") else sb.root + "/")) for x in case["rules"]]
        run = core.run_xcp(sb, case["args"], {"log_mode": "none", "rules": rules, "max_steps": 3000000, "wall_ms": 240000})
        if run.verdict != "exited":
            res["inconc"].append("run-" + run.verdict)
            return res
        res["counters"]["clamps+refusals-applied"] = sum(v["applied"] for v in run.summary.get("rules", {}).values())
        if not run.exit0:
            res["counters"]["nonzero:unsized"] = 1
        else:
            got = open(os.path.join(sb.root, "dst"), "rb").read()
            if got != want:
                res["viol"].append({"sig": "%s:unsized:%s:%s" % (case["driver"], case["policy"], "size" if len(got) != len(want) else "bytes"),
                                    "what": "exit 0 but the copy of %s holds %d bytes, reading the source gives %d (policy %s); %s" % (case["unsized"], len(got), len(want), case["policy"], " ".join(case["args"]))})
        res["evals"].append({"key": [case["driver"], "unsized", case["unsized"], case["policy"], case["fs"]], "sample": {"args": case["args"], "rules": case["rules"], "source_bytes": len(want)}})
    return res


def run_case(case):
    res = {"evals": [], "viol": [], "inconc": [], "counters": {}}
    if case.get("unsized"):
        return run_unsized(case, res)
    with core.Sandbox(case["fs"], "c05") as sb:
        root = sb.root
        tree.materialize(root, case["spec"])
        f = case["spec"][1]
        srcp = os.path.join(b(root), b(f["p"]))
        src_sha = tree.sha_file(srcp)
        rules = []
        for x in case["rules"]:
            x = dict(x)
            x["under"] = root + "/"
            rules.append(x)
        plan = {"log_mode": "none", "rules": rules, "max_steps": 3000000, "wall_ms": 240000}
        if case["kind"] == "xcp":
            run = core.run_xcp(sb, case["args"], plan)
            target = case["driver"]
        else:
            argv = [PROBE_BIN[case["probe"]], case["api"], f["p"], "dst"] + ([str(case["bsv"])] if case["api"] != "copy_file" else [])
            run = core.run_supervised(sb, argv, plan)
            target = case["probe"] + ":" + case["api"]
        if run.verdict != "exited":
            res["inconc"].append("run-" + run.verdict)
            return res
        applied = sum(v["applied"] for v in run.summary.get("rules", {}).values())
        res["counters"]["clamps+refusals-applied"] = applied
        if rules and not applied:
            res["counters"]["policy-never-hit"] = 1
        if not run.exit0:
            res["counters"]["nonzero-exit"] = 1
            res["counters"]["nonzero:" + case["policy"].split(":")[0]] = 1
            return res
        multi = len(case["spec"]) > 2
        for fe in case["spec"][1:]:
            sp_ = os.path.join(b(root), b(fe["p"]))
            dstp = os.path.join(b(root), b"dst", os.path.basename(b(fe["p"]))) if multi else os.path.join(b(root), b"dst")
            ok_size = os.path.exists(dstp) and os.path.getsize(dstp) == fe["size"]
            if not ok_size or tree.sha_file(dstp) != tree.sha_file(sp_):
                off, kind = (None, None)
                if os.path.exists(dstp):
                    off, kind = model.first_diff(sp_, dstp)
                sig = "%s:%s:%s" % (target, case["policy"].split(":")[0], "size" if not ok_size else "bytes")
                res["viol"].append({"sig": sig, "what": "exit 0 but destination of %s differs from source (size %d, first difference at %s: %s) under policy %s; %s"
                                    % (fe["p"], fe["size"], off, kind, case["policy"], " ".join(case.get("args", [case.get("api", "")])))})
        if multi:
            res["counters"]["multi-file-runs"] = 1
        key = None
        if applied or case["policy"] == "none":
            key = [target, case["policy"], size_class(f["size"], case["bsv"]), f.get("layout"), case["fs"]]
        res["evals"].append({"key": key, "sample": {"target": target, "policy": case["policy"], "rules": case["rules"], "size": f["size"],
                                                    "segs": f.get("segs"), "applied": applied, "args": case.get("args")}})
        res["counters"]["exit0"] = 1
        res["counters"]["bytes-compared"] = f["size"]
    return res
