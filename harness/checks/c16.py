"""C16 -- invalid invocations are rejected with no side effects."""
import os
import random

from .. import core, tree, model
from ..core import b, u

PROP = "C16"
LEVEL = "exploration"
RULE = ("seeded invocations from every rejection class (no source; a missing source at each position among 1-4 valid ones; a directory "
        "without -r at each position; several sources onto an absent or non-directory destination; a directory onto an existing file, "
        "both as the destination itself and at the mapped path inside a destination directory; source identical to destination; -n "
        "with -f; unknown --driver / --reflink / --backup values; malformed glob) x destination state {absent, file, empty dir, "
        "populated dir} x both drivers x valid sources of every kind (multi-block files, trees, links). Oracle: exit != 0, the whole "
        "sandbox snapshot (content hashes, lstat, xattrs, directory mtimes) is identical before and after, and the system-call trace "
        "contains no mutating call on a sandbox object. distinct_nontrivial = distinct (class, position, number of sources, "
        "destination state, driver)")
ASSUMPTIONS = ["a --glob pattern that matches nothing is not claimed as a rejection class (the code documents it as a FIXME and the statement speaks of a missing source)"]

CLASSES = ["no-source", "missing-source", "dir-without-r", "multi-to-absent", "multi-to-file", "dir-onto-file-dest", "dir-onto-file-mapped",
           "same-as-dest", "noclobber-force", "T-with-target-directory", "multi-with-T", "bad-driver", "bad-reflink", "bad-backup", "bad-glob", "bad-blocksize", "glob-multi-to-nondir", "target-directory-nondir", "bad-workers", "dangling-source", "dirlink-without-r", "nondir-onto-dir-mapped"]


def gen_cases(tier, seed):
    n = 880 if tier == "quick" else 8800
    r = random.Random(seed * 86028157 + 16)
    for i in range(n):
        driver = ["parfile", "parblock"][i % 2]
        cls = CLASSES[(i // 2) % len(CLASSES)]
        nvalid = r.randint(1, 4)
        spec, valid = [], []
        for j in range(nvalid):
            kind = r.choice(["file", "bigfile", "tree", "link"])
            nm = "v%d" % j
            if kind == "file":
                spec.append({"p": nm, "k": "f", "size": r.choice([0, 10, 5000]), "seed": r.randrange(1, 1 << 30), "segs": None})
            elif kind == "bigfile":
                spec.append({"p": nm, "k": "f", "size": 300000, "seed": r.randrange(1, 1 << 30), "segs": None})
            elif kind == "tree":
                spec.append({"p": nm, "k": "d"})
                spec += tree.gen_tree(r, depth=1, fanout=3, kinds=("f", "d"), prefix=nm, nonutf8=False, max_entries=5)
            else:
                spec.append({"p": nm, "k": "l", "target": "v0" if j else "nowhere"})
                if not j:
                    spec[-1] = {"p": nm, "k": "f", "size": 3, "seed": 1, "segs": None}
            valid.append(nm)
        dstate = r.choice(["absent", "file", "emptydir", "populated"])
        pos = r.randint(0, nvalid)
        srcs = list(valid)
        opts = ["-r"]
        dest = "dst"
        if cls == "no-source":
            srcs = []
        elif cls == "missing-source":
            srcs.insert(pos, r.choice(["does-not-exist", "does-not-exist", "missing]", "no}such{"]))
            if r.random() < 0.5:
                srcs[pos] = r.choice(["missing]", "missing]", "gone].txt", "does-not-exist"])      # (a stray `]` does not make a name a pattern)
                opts += ["--glob"]
            elif r.random() < 0.35:
                # named literally while --glob is on: still a missing source, not a pattern (a pattern with wildcards that matches
                # nothing is not claimed, see ASSUMPTIONS)
                opts += ["--glob"]
        elif cls == "dir-without-r":
            spec.append({"p": "adir", "k": "d"})
            spec.append({"p": "adir/x", "k": "f", "size": 4, "seed": 2, "segs": None})
            srcs = [s for s in srcs if not any(e["p"] == s and e["k"] == "d" for e in spec)]
            pos = min(pos, len(srcs))
            srcs.insert(pos, "adir")
            opts = []
        elif cls == "multi-to-absent":
            srcs = srcs + ["v0"] if len(srcs) < 2 else srcs
            if len(set(srcs)) < 2:
                spec.append({"p": "extra", "k": "f", "size": 4, "seed": 2, "segs": None})
                srcs = ["v0", "extra"]
            dstate = "absent"
            if r.random() < 0.3:
                srcs = ["v0", "v0"] + ([] if r.random() < 0.5 else ["v0"])      # the same source named more than once still is more than one source
        elif cls == "multi-with-T":
            # -T says "the destination is not a directory to copy into": with several sources that leaves every one of them mapped
            # onto the same path, whatever is there (cp: "extra operand")
            if len(set(srcs)) < 2:
                spec.append({"p": "extra", "k": "f", "size": 4, "seed": 2, "segs": None})
                srcs = ["v0", "extra"]
            opts += ["-T"]
            if r.random() < 0.3:
                srcs = [srcs[0], srcs[0]]
        elif cls == "multi-to-file":
            if len(srcs) < 2:
                spec.append({"p": "extra", "k": "f", "size": 4, "seed": 2, "segs": None})
                srcs = ["v0", "extra"]
            dstate = "file"
            if r.random() < 0.3:
                srcs = ["v0", "v0"]
        elif cls == "dir-onto-file-dest":
            spec.append({"p": "adir", "k": "d"})
            spec.append({"p": "adir/x", "k": "f", "size": 4, "seed": 2, "segs": None})
            srcs = ["adir"]
            dstate = "file"
        elif cls == "dir-onto-file-mapped":
            spec.append({"p": "adir", "k": "d"})
            spec.append({"p": "adir/x", "k": "f", "size": 4, "seed": 2, "segs": None})
            srcs.insert(pos, "adir")
            dstate = "collide"
            collide_kind = r.choice(["file", "file", "dangling-link", "fifo", "link-to-file", "link-to-dir", "link-to-dir"])
        elif cls == "same-as-dest":
            which = r.choice(["file", "dir", "mapped", "inside", "inside"])
            if which == "inside":
                # a directory copied to a place inside itself (an existing sub-directory, a new name in it, a path with parts still
                # missing, another spelling, a link that leads there): the copy would be its own input
                spec += [{"p": "adir", "k": "d"}, {"p": "adir/inner", "k": "d"}, {"p": "adir/inner/x", "k": "f", "size": 4, "seed": 2, "segs": None},
                         {"p": "adir/y", "k": "f", "size": 5, "seed": 3, "segs": None}, {"p": "lin", "k": "l", "target": "adir/inner"}, {"p": "ldir", "k": "l", "target": "adir"}]
                src_sp = r.choice(["adir", "adir", "./adir", "adir/", "adir/.", "@ROOT@/adir"])
                dest = r.choice(["adir/inner", "adir/inner/", "adir/new", "adir/new1/new2", "./adir/../adir/inner", "@ROOT@/adir/inner", "lin", "lin/", "ldir/inner", "adir/inner/deeper/still"])
                if r.random() < 0.5:
                    srcs = [src_sp]
                else:
                    srcs.insert(pos, src_sp)
                    dest = r.choice(["adir/inner", "lin", "@ROOT@/adir/inner", "adir/inner/"])      # (several sources need an existing directory)
                if r.random() < 0.25:
                    opts.append("-T") if len(srcs) == 1 else None
            elif which == "file":
                srcs, dest = ["v0"], "v0"
            elif which == "dir":
                # the directory itself, also through another spelling or a symbolic link
                spec += [{"p": "adir", "k": "d"}, {"p": "adir/inner", "k": "d"}, {"p": "adir/inner/x", "k": "f", "size": 4, "seed": 2, "segs": None},
                         {"p": "ldir", "k": "l", "target": "adir"}]
                srcs, dest = [r.choice(["adir", "adir", "./adir", "adir/"])], r.choice(["adir", "./adir", "adir/", "@ROOT@/adir", "ldir", "adir/../adir", "ldir/"])
            else:
                # a file named (under any spelling, or reached through a link in the destination) inside the destination directory itself
                spec.append({"p": "adir", "k": "d"})
                spec.append({"p": "adir/v0", "k": "f", "size": 4, "seed": 2, "segs": None})
                how = r.choice(["plain", "plain", "dot", "dotdot", "abs", "dest-link"])
                if how == "dest-link":
                    spec.append({"p": "other-v", "k": "f", "size": 5, "seed": 3, "segs": None})
                    spec.append({"p": "adir/other-v", "k": "l", "target": "../other-v"})
                    srcs.insert(pos, "other-v")
                else:
                    srcs.insert(pos, {"plain": "adir/v0", "dot": "./adir/v0", "dotdot": "adir/../adir/v0", "abs": "@ROOT@/adir/v0"}[how])
                dest = "adir"
                srcs = [s for s in srcs if s != "v0"] if "v0" in srcs and r.random() < 0.5 else srcs
            dstate = "n/a"
        elif cls == "noclobber-force":
            opts += ["-n", "-f"]
        elif cls == "T-with-target-directory":
            # "treat the destination as a directory to copy into" and "do not" at once
            srcs = ["v0"]
            opts += ["-T", "--target-directory", "dst"]
            dest = None
            dstate = r.choice(["absent", "emptydir", "file"])
        elif cls == "bad-driver":
            opts += ["--driver", r.choice(["fast", "parfil", "", "parbloc\xe2\x84\xaa"])]      # (the last one ends in U+212A KELVIN SIGN, which lower-cases to 'k')
        elif cls == "bad-reflink":
            opts += ["--reflink", r.choice(["sometimes", "yes", "alway"])]
        elif cls == "bad-backup":
            opts += ["--backup", r.choice(["simple", "t", "numberedd"])]
        elif cls == "bad-glob":
            opts += ["--glob"]
            srcs.insert(pos, r.choice(["a[", "v[0-", "***/[x"]))
        elif cls == "glob-multi-to-nondir":
            # one pattern that expands to several sources, destination absent or a file
            spec.append({"p": "vx", "k": "f", "size": 4, "seed": 2, "segs": None})
            opts += ["--glob"]
            srcs = [r.choice(["v*", "v?", "./v*"])]
            dstate = r.choice(["absent", "file"])
        elif cls == "target-directory-nondir":
            # --target-directory naming something that is not a directory (a file, or nothing), with several sources or just one: an
            # option value that cannot be honoured
            if r.random() < 0.5:
                srcs = ["v0"]
            elif len(srcs) < 2:
                spec.append({"p": "extra", "k": "f", "size": 4, "seed": 2, "segs": None})
                srcs = ["v0", "extra"]
            dstate = r.choice(["absent", "file"])
            opts += ["--target-directory", "dst"]
            dest = None
        elif cls == "bad-workers":
            opts += ["-w", r.choice(["abc", "-3", "1.5", ""])]
        elif cls == "dangling-source":
            spec.append({"p": "dang", "k": "l", "target": "nowhere-to-be-found"})
            # (named literally, or selected by a pattern: a pattern matches the link itself, whether or not it leads anywhere)
            how = r.choice(["plain", "plain", "glob-literal", "glob-pattern", "glob-pattern"])
            srcs.insert(pos, "dan[g]" if how == "glob-pattern" else "dang")
            opts.append("-L")
            if how != "plain":
                opts.append("--glob")
        elif cls == "dirlink-without-r":
            spec += [{"p": "adir", "k": "d"}, {"p": "adir/x", "k": "f", "size": 4, "seed": 2, "segs": None}, {"p": "ldir", "k": "l", "target": "adir"}]
            srcs = [s for s in srcs if not any(e["p"] == s and e["k"] == "d" for e in spec)]
            pos = min(pos, len(srcs))
            srcs.insert(pos, "ldir")
            opts = []
        elif cls == "nondir-onto-dir-mapped":
            # the converse of dir-onto-file-mapped: a file, a link (also one to a directory, copied as a link) or a FIFO whose
            # destination path is an existing directory
            what = r.choice(["file", "file", "link", "dirlink", "fifo"])
            spec += [{"file": {"p": "athing", "k": "f", "size": 7, "seed": 3, "segs": None}, "link": {"p": "athing", "k": "l", "target": "v0"},
                      "dirlink": {"p": "athing", "k": "l", "target": "somedir"}, "fifo": {"p": "athing", "k": "fifo"}}[what], {"p": "somedir", "k": "d"}]
            srcs.insert(pos, "athing")
            dstate = "thing-is-dir"
            if r.random() < 0.2:
                srcs, dstate = ["athing"], "T-onto-dir"
                opts += ["-T"]
        elif cls == "bad-blocksize":
            opts += ["--block-size", r.choice(["12XB", "-5", "abc", "0", "0", "0KB"])]
        pre = []
        if dstate == "file":
            pre.append({"p": "dst", "k": "f", "size": 8, "seed": 5, "segs": None})
        elif dstate in ("emptydir", "populated", "collide"):
            pre.append({"p": "dst", "k": "d"})
            if dstate == "populated":
                pre += [{"p": "dst/old", "k": "f", "size": 9, "seed": 6, "segs": None}, {"p": "dst/v0", "k": "f", "size": 2, "seed": 7, "segs": None}]
            if dstate == "collide":
                # something that is not a directory sits where the directory maps to
                pre.append({"file": {"p": "dst/adir", "k": "f", "size": 6, "seed": 8, "segs": None}, "dangling-link": {"p": "dst/adir", "k": "l", "target": "nowhere-at-all"},
                            "fifo": {"p": "dst/adir", "k": "fifo"}, "link-to-file": {"p": "dst/adir", "k": "l", "target": "old"},
                            "link-to-dir": {"p": "dst/adir", "k": "l", "target": "realdir"}}[collide_kind])
                if collide_kind == "link-to-dir":
                    pre[-1] = {"p": "dst/adir", "k": "l", "target": "realdir"}
                    pre.append({"p": "dst/realdir", "k": "d"})
                if collide_kind == "link-to-file":
                    pre.append({"p": "dst/old", "k": "f", "size": 9, "seed": 6, "segs": None})
        if dstate == "thing-is-dir":
            pre += [{"p": "dst", "k": "d"}, {"p": "dst/athing", "k": "d"}, {"p": "dst/athing/inside", "k": "f", "size": 3, "seed": 9, "segs": None}]
        elif dstate == "T-onto-dir":
            pre += [{"p": "dst", "k": "d"}, {"p": "dst/inside", "k": "f", "size": 3, "seed": 9, "segs": None}]
        if cls in ("no-source",) and dstate == "absent":
            pass
        if cls in ("dir-onto-file-mapped", "dir-without-r", "nondir-onto-dir-mapped") and r.random() < 0.4:
            # the offending source has a name that ends in a dot (`adir.` is a name like any other, `adir/.` is not)
            ren = lambda t: t.replace("adir", "adir.").replace("athing", "athing.")
            spec = [dict(e, p=ren(e["p"])) for e in spec]
            pre = [dict(e, p=ren(e["p"])) for e in pre]
            srcs = [ren(x) for x in srcs]
        drv = [] if cls == "bad-driver" else ["--driver", driver]
        noise = r.choice([[], [], [], ["--fsync"], ["--backup", "numbered"], ["--no-perms"], ["-L"], ["--gitignore"], ["--no-progress"], ["--reflink", "never"]])
        if cls in ("noclobber-force", "T-with-target-directory", "bad-driver", "bad-backup", "bad-blocksize", "bad-workers") and r.random() < 0.4:
            noise = ["--reflink", "never"]      # (an option that is looked at in the same place as the contradictory ones)
        if cls in ("bad-backup", "bad-reflink") and noise and noise[0] in ("--backup", "--reflink"):
            noise = []
        if cls == "same-as-dest" and locals().get("which") == "inside" and noise == ["--gitignore"]:
            noise = []
        if cls == "nondir-onto-dir-mapped" and noise == ["-L"]:
            noise = []      # (followed, a link to a directory is a directory: a valid copy)
        wopt = [] if cls == "bad-workers" else ["-w", str(r.choice([0, 1, 4]))]
        args = drv + wopt + opts + noise + srcs + ([dest] if dest is not None else [])
        yield {"spec": spec, "pre": pre, "args": args, "driver": driver, "cls": cls + (":directory-into-itself" if cls == "same-as-dest" and which == "inside" else ""), "pos": pos if cls in ("missing-source", "dir-without-r", "dir-onto-file-mapped", "bad-glob", "dangling-source", "nondir-onto-dir-mapped") else -1,
               "nsrc": len(srcs), "dstate": dstate, "fs": "ext4"}


ALL_FIELDS = ("k", "mode", "uid", "gid", "size", "mtime_ns", "ino", "nlink", "rdev", "link", "xattrs", "sha")


def run_case(case):
    res = {"evals": [], "viol": [], "inconc": [], "counters": {}}
    with core.Sandbox(case["fs"], "c16") as sb:
        root = sb.root
        tree.materialize(root, case["spec"])
        tree.materialize(root, case["pre"])
        pre = tree.snapshot(root)
        run = core.run_xcp(sb, [a.replace("@ROOT@", root) for a in case["args"]], {"log_mode": "full"})
        if run.verdict != "exited":
            res["inconc"].append("run-" + run.verdict)
            return res
        post = tree.snapshot(root)
        tag = "class=%s pos=%d args=%s dest=%s" % (case["cls"], case["pos"], " ".join(case["args"]), case["dstate"])
        sig0 = "%s:%s" % (case["driver"], case["cls"])
        if run.exit0:
            res["viol"].append({"sig": sig0 + ":exit0", "what": "invalid invocation exited 0; " + tag})
        diffs = tree.diff_snapshots(pre, post, ALL_FIELDS)
        if diffs:
            p, what, a, c = diffs[0]
            res["viol"].append({"sig": sig0 + ":side-effect", "what": "rejected (exit %d) but the sandbox changed: %r %s %r -> %r (+%d more); %s"
                                % (run.status, p, what, str(a)[:60], str(c)[:60], len(diffs) - 1, tag)})
        nmut = 0
        for ev, ex in core.pairs(run.events):
            if core.is_mutating(ev) and (ex is None or ex.get("ret", -1) >= 0):
                paths = [x for x in core.ev_paths(ev) if core.under(x, root) and not x.startswith(root + ".aux")]
                if paths:
                    nmut += 1
                    if nmut == 1:
                        res["viol"].append({"sig": sig0 + ":mutating-call", "what": "rejected invocation issued %s on %s (role %s); %s"
                                            % (ev["sys"], paths[0][len(root) + 1:], ev.get("role"), tag)})
        res["counters"]["events-monitored"] = len(run.events)
        res["counters"]["entries-compared"] = len(pre)
        res["evals"].append({"key": [case["cls"], case["pos"], case["nsrc"], case["dstate"], case["driver"]],
                             "sample": {"args": case["args"], "class": case["cls"], "dest_state": case["dstate"], "exit": run.status, "stderr": run.stderr.strip().splitlines()[-1:]}})
    return res
