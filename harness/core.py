"""Core plumbing: paths, builds, sandboxes, running targets under xsup, event logs.

Everything a registered check needs lives under /verif (sources) and
/var/tmp/xcp-verif, /dev/shm/xcp-verif (scratch, recreated on demand).  Nothing
is kept under /tmp.
"""
import fcntl
import json
import os
import shutil
import subprocess
import sys
import time

VERIF = os.path.dirname(os.path.dirname(os.path.abspath(__file__)))
REPO = os.environ.get("XCP_REPO", "/repo")
# VERIF_SCRATCH_TAG isolates a run's scratch space and build output (used for background sweeps on a snapshot of /repo,
# so that they are not disturbed by seeded changes applied to /repo in the foreground)
_TAG = os.environ.get("VERIF_SCRATCH_TAG", "")
SCRATCH = {"ext4": "/var/tmp/xcp-verif" + _TAG, "tmpfs": "/dev/shm/xcp-verif" + _TAG}
TARGET = os.path.join(SCRATCH["ext4"], "target")
PROBE_TARGET = os.path.join(SCRATCH["ext4"], "target-probes")
XSUP = os.path.join(VERIF, "bin", "xsup")
XCP = os.environ.get("XCP_BIN") or os.path.join(TARGET, "release", "xcp")   # XCP_BIN: a pre-built binary (coverage measurement only)
NCPU = os.cpu_count() or 4

FICLONE = 0x40049409
FIEMAP = 0xC020660B

ENV = dict(os.environ)
ENV.update({"CARGO_NET_OFFLINE": "true", "CARGO_TERM_COLOR": "never"})


class HarnessError(Exception):
    """The machinery itself failed (build, sandbox...).  Never a violation."""


def b(s):
    """latin-1 str (JSON side) -> bytes (filesystem side)."""
    return s.encode("latin-1") if isinstance(s, str) else s


def u(bs):
    return bs.decode("latin-1") if isinstance(bs, (bytes, bytearray)) else bs


def hexs(s):
    return b(s).hex()


# ---------------------------------------------------------------------------
# builds


class _Lock:
    def __init__(self, name):
        os.makedirs(SCRATCH["ext4"], exist_ok=True)
        self.path = os.path.join(SCRATCH["ext4"], name)

    def __enter__(self):
        self.f = open(self.path, "w")
        fcntl.flock(self.f, fcntl.LOCK_EX)
        return self

    def __exit__(self, *a):
        fcntl.flock(self.f, fcntl.LOCK_UN)
        self.f.close()


def build_xsup():
    src = os.path.join(VERIF, "xsup", "xsup.c")
    os.makedirs(os.path.dirname(XSUP), exist_ok=True)
    with _Lock("xsup.lock"):
        if os.path.exists(XSUP) and os.path.getmtime(XSUP) >= os.path.getmtime(src):
            return
        r = subprocess.run(["gcc", "-O2", "-w", "-o", XSUP + ".tmp", src], capture_output=True, text=True)
        if r.returncode != 0:
            raise HarnessError("cannot build xsup: " + r.stderr[-2000:])
        os.replace(XSUP + ".tmp", XSUP)


def build_xcp():
    """cargo build --release of /repo's current working tree (fingerprints make it a no-op when unchanged)."""
    if os.environ.get("XCP_BIN"):
        return
    with _Lock("build.lock"):
        env = dict(ENV)
        env["CARGO_TARGET_DIR"] = TARGET
        r = subprocess.run(["cargo", "build", "--release", "--offline", "--quiet"], cwd=REPO, env=env,
                           capture_output=True, text=True)
        if r.returncode != 0:
            raise HarnessError("cargo build of /repo failed:\n" + r.stderr[-4000:])
    if not os.path.exists(XCP):
        raise HarnessError("xcp binary missing after build")


def build_probe(name):
    """Build /verif/probes/<name> against /repo's current tree; returns the binary path."""
    src = os.path.join(VERIF, "probes")
    pdir = os.path.join(SCRATCH["ext4"], "probes-src", name)
    with _Lock("probe-%s.lock" % name):
        # build from a scratch copy so that /verif stays clean and the path dependencies follow REPO
        os.makedirs(os.path.join(pdir, "src"), exist_ok=True)
        os.makedirs(os.path.join(os.path.dirname(pdir), "common"), exist_ok=True)
        def sync(a, b_, subst=False):
            data = open(a).read()
            if subst:
                data = data.replace("/repo/", REPO.rstrip("/") + "/")
            if not os.path.exists(b_) or open(b_).read() != data:
                open(b_, "w").write(data)
        sync(os.path.join(src, name, "Cargo.toml"), os.path.join(pdir, "Cargo.toml"), True)
        sync(os.path.join(src, name, "src", "main.rs"), os.path.join(pdir, "src", "main.rs"))
        sync(os.path.join(src, "common", "fsprobe.rs"), os.path.join(os.path.dirname(pdir), "common", "fsprobe.rs"))
        shutil.copyfile(os.path.join(REPO, "Cargo.lock"), os.path.join(pdir, "Cargo.lock"))
        env = dict(ENV)
        env["CARGO_TARGET_DIR"] = os.path.join(PROBE_TARGET, name)
        r = subprocess.run(["cargo", "build", "--release", "--offline", "--quiet"], cwd=pdir, env=env,
                           capture_output=True, text=True)
        if r.returncode != 0:
            raise HarnessError("cargo build of probe %s failed:\n%s" % (name, r.stderr[-4000:]))
    p = os.path.join(PROBE_TARGET, name, "release", name)
    if not os.path.exists(p):
        raise HarnessError("probe binary missing: " + p)
    return p


def ensure_built(probes=()):
    build_xsup()
    build_xcp()
    return {p: build_probe(p) for p in probes}


# ---------------------------------------------------------------------------
# sandboxes

_counter = [0]


class Sandbox:
    """A fresh directory on ext4 or tmpfs, removed on exit."""

    def __init__(self, fs="ext4", tag="sb"):
        self.fs = fs
        _counter[0] += 1
        base = os.path.join(SCRATCH[fs], "run")
        os.makedirs(base, exist_ok=True)
        self.root = os.path.join(base, "%s-%d-%d-%d" % (tag, os.getpid(), _counter[0], time.monotonic_ns() % 1000000))
        self.aux = self.root + ".aux"
        # a directory on the *other* filesystem (tmpfs for ext4 sandboxes and vice versa), for cross-device cases
        ofs = "tmpfs" if fs == "ext4" else "ext4"
        os.makedirs(os.path.join(SCRATCH[ofs], "run"), exist_ok=True)
        self.other = os.path.join(SCRATCH[ofs], "run", os.path.basename(self.root) + ".other")

    def __enter__(self):
        force_rmtree(self.root)
        force_rmtree(self.aux)
        force_rmtree(self.other)
        os.makedirs(self.root)
        os.makedirs(self.aux)
        os.makedirs(self.other)
        return self

    def __exit__(self, *a):
        force_rmtree(self.root)
        force_rmtree(self.aux)
        force_rmtree(self.other)

    def path(self, rel=""):
        return os.path.join(b(self.root), b(rel)) if rel else b(self.root)


FS_IOC_GETFLAGS, FS_IOC_SETFLAGS, FS_IMMUTABLE_FL = 0x80086601, 0x40086602, 0x10


def set_immutable(path, on=True):
    """chattr +i / -i (ext4).  Returns False where the filesystem has no such flag."""
    import fcntl, struct
    try:
        fd = os.open(b(path), os.O_RDONLY | os.O_NONBLOCK | os.O_NOFOLLOW)
    except OSError:
        return False
    try:
        buf = bytearray(8)
        fcntl.ioctl(fd, FS_IOC_GETFLAGS, buf)
        fl = struct.unpack("l", bytes(buf))[0]
        fl = (fl | FS_IMMUTABLE_FL) if on else (fl & ~FS_IMMUTABLE_FL)
        fcntl.ioctl(fd, FS_IOC_SETFLAGS, struct.pack("l", fl))
        return True
    except OSError:
        return False
    finally:
        os.close(fd)


def force_rmtree(p):
    p = b(p)
    if not os.path.lexists(p):
        return
    def onerr(func, path, exc):
        try:
            set_immutable(os.path.dirname(path), False)
            set_immutable(path, False)
            os.chmod(os.path.dirname(path), 0o700)
            os.chmod(path, 0o700)
        except OSError:
            pass
        try:
            func(path)
        except OSError:
            pass
    if os.path.isdir(p) and not os.path.islink(p):
        try:
            shutil.rmtree(p, onerror=onerr)
        except (OSError, RecursionError):
            pass
        if os.path.lexists(p):
            # trees deeper than PATH_MAX / the interpreter's recursion limit: rm walks them descriptor by descriptor
            subprocess.run(["rm", "-rf", "--", p], capture_output=True)
    else:
        os.unlink(p)


def mount_tmpfs(path, opts):
    """A small tmpfs of its own (size= / nr_inodes= limits, later remounted read-only): real ENOSPC / EROFS."""
    r = subprocess.run(["mount", "-t", "tmpfs", "-o", opts, "none", u(b(path))], capture_output=True)
    return r.returncode == 0


def remount_ro(path):
    return subprocess.run(["mount", "-o", "remount,ro", u(b(path))], capture_output=True).returncode == 0


def umount(path):
    subprocess.run(["umount", "-l", u(b(path))], capture_output=True)


def stale_mounts():
    """Mount points below the scratch areas whose creating process is gone (sandbox names carry the pid)."""
    out = []
    try:
        lines = open("/proc/mounts").read().splitlines()
    except OSError:
        return out
    for ln in lines:
        f = ln.split()
        if len(f) < 2:
            continue
        mp = f[1].replace("\\040", " ")
        for root in SCRATCH.values():
            base = os.path.join(root, "run") + "/"
            if mp.startswith(base):
                sbname = mp[len(base):].split("/")[0]
                parts = sbname.split("-")
                pid = int(parts[1]) if len(parts) > 2 and parts[1].isdigit() else None
                if pid is None or not os.path.exists("/proc/%d" % pid):
                    out.append(mp)
    return out


def cleanup_stale(max_age_s=6 * 3600):
    """Remove run directories left behind by killed checks (older than max_age_s)."""
    for mp in stale_mounts():
        umount(mp)
    nowt = time.time()
    for fs, root in SCRATCH.items():
        base = os.path.join(root, "run")
        if not os.path.isdir(base):
            continue
        for n in os.listdir(base):
            p = os.path.join(base, n)
            try:
                if nowt - os.lstat(p).st_mtime > max_age_s:
                    force_rmtree(p)
            except OSError:
                pass


# ---------------------------------------------------------------------------
# running under xsup


class Run:
    def __init__(self, summary, stderr, stdout, logpath, argv, plan):
        self.summary = summary
        self.verdict = summary.get("verdict", "harness-error")
        self.status = summary.get("status", -1)
        self.signal = summary.get("signal", 0)
        self.exited = bool(summary.get("exited", 0))
        self.stderr = stderr
        self.stdout = stdout
        self.logpath = logpath
        self.argv = argv
        self.plan = plan
        self._events = None

    @property
    def exit0(self):
        return self.verdict == "exited" and self.exited and self.status == 0

    @property
    def failed(self):
        """Process finished on its own with a non-zero status or a signal (panic/abort)."""
        return self.verdict == "exited" and not self.exit0

    @property
    def events(self):
        if self._events is None:
            ev = []
            if self.logpath and os.path.exists(self.logpath):
                with open(self.logpath, "r", encoding="latin-1") as f:
                    for line in f:
                        try:
                            ev.append(json.loads(line))
                        except ValueError:
                            pass  # truncated last line after a kill
            self._events = ev
        return self._events

    def rule(self, rid):
        return self.summary.get("rules", {}).get(rid, {"matches": 0, "applied": 0})

    def brief(self):
        return {"verdict": self.verdict, "status": self.status, "signal": self.signal,
                "stderr_tail": self.stderr[-400:] if self.stderr else ""}


def plan_text(cwd, plan, stdout, stderr):
    L = ["cwd " + hexs(cwd), "stdout " + hexs(stdout), "stderr " + hexs(stderr)]
    for k in ("nofile", "wall_ms", "cpu_ms", "max_steps", "marker_fd", "log_mode", "driver", "sched",
              "sched_seed", "sched_d", "sched_cap_us", "pct_horizon", "role_order", "deadlock_ms"):
        if k in plan and plan[k] is not None:
            L.append("%s %s" % (k, plan[k]))
    if "umask" in plan and plan["umask"] is not None:
        L.append("umask %o" % plan["umask"])
    if "jitter" in plan:
        L.append("jitter %d %d" % tuple(plan["jitter"]))
    for e in plan.get("env", []):
        L.append("env " + hexs(e))
    for r in plan.get("rules", []):
        parts = ["rule", r["id"]]
        for k, v in r.items():
            if k == "id":
                continue
            if k in ("path", "under", "suffix", "target"):
                parts.append("%s=%s" % (k, hexs(v)))
            elif k == "iocmd":
                parts.append("iocmd=0x%x" % v)
            else:
                parts.append("%s=%s" % (k, v))
        L.append(" ".join(parts))
    return "\n".join(L) + "\n"


def run_supervised(sb, argv, plan=None, cwd=None, tag="r", keep_log=True):
    """Run argv under xsup in sandbox sb.  argv items may be str (latin-1) or bytes."""
    plan = dict(plan or {})
    plan.setdefault("wall_ms", 120000)
    cwd = cwd or sb.root
    _counter[0] += 1
    pfx = os.path.join(sb.aux, "%s%d" % (tag, _counter[0]))
    planf, logf, sumf, outf, errf = (pfx + s for s in (".plan", ".ev", ".sum", ".out", ".err"))
    # the process's stdout / stderr may be pointed somewhere else (e.g. /dev/full: every write fails with ENOSPC)
    outf, errf = plan.get("stdout_to", outf), plan.get("stderr_to", errf)
    with open(planf, "w") as f:
        f.write(plan_text(cwd, plan, outf, errf))
    cmd = [b(XSUP), b"--plan", b(planf), b"--log", b(logf), b"--summary", b(sumf), b"--"] + [b(a) for a in argv]
    try:
        r = subprocess.run(cmd, capture_output=True, timeout=plan["wall_ms"] / 1000.0 + 60)
    except subprocess.TimeoutExpired:
        return Run({"verdict": "harness-timeout"}, "", "", None, argv, plan)
    if r.returncode != 0 or not os.path.exists(sumf):
        return Run({"verdict": "harness-error", "detail": r.stderr.decode("latin-1")[-500:]}, "", "", None, argv, plan)
    with open(sumf, encoding="latin-1") as f:
        summary = json.load(f)
    def rd(p):
        if p in (plan.get("stdout_to"), plan.get("stderr_to")):
            return ""          # redirected away (a device such as /dev/full reads as endless zeros)
        try:
            with open(p, "rb") as f:
                return f.read(16 << 20).decode("utf-8", "replace")
        except OSError:
            return ""
    return Run(summary, rd(errf), rd(outf), logf if keep_log else None, [u(b(a)) for a in argv], plan)


def xcp_argv(args):
    return [XCP] + list(args)


def driver_of(args):
    d = "parfile"
    for i, a in enumerate(args):
        a = u(b(a))
        if a == "--driver" and i + 1 < len(args):
            d = u(b(args[i + 1]))
        elif a.startswith("--driver="):
            d = a.split("=", 1)[1]
    return d


def run_xcp(sb, args, plan=None, **kw):
    plan = dict(plan or {})
    plan.setdefault("driver", driver_of(args))
    return run_supervised(sb, xcp_argv(args), plan, **kw)


def run_plain(argv, cwd, umask=None, timeout=120, nofile=None):
    """Run without supervision (fast path for pure snapshot oracles)."""
    def pre():
        if umask is not None:
            os.umask(umask)
        if nofile:
            import resource
            resource.setrlimit(resource.RLIMIT_NOFILE, (nofile, nofile))
    try:
        r = subprocess.run([b(a) for a in argv], cwd=b(cwd), capture_output=True, timeout=timeout,
                           preexec_fn=pre, stdin=subprocess.DEVNULL)
    except subprocess.TimeoutExpired as e:
        return Run({"verdict": "harness-timeout"}, "", "", None, [u(b(a)) for a in argv], {})
    summ = {"verdict": "exited", "exited": 1 if r.returncode >= 0 else 0,
            "status": r.returncode if r.returncode >= 0 else 0, "signal": -r.returncode if r.returncode < 0 else 0}
    return Run(summ, r.stderr.decode("utf-8", "replace"), r.stdout.decode("utf-8", "replace"), None,
               [u(b(a)) for a in argv], {})


# ---------------------------------------------------------------------------
# event-log helpers

MUTATING = {"write", "pwrite64", "writev", "truncate", "ftruncate", "rename", "mkdir", "rmdir", "creat", "link",
            "unlink", "symlink", "chmod", "fchmod", "chown", "fchown", "lchown", "mknod", "setxattr", "lsetxattr",
            "fsetxattr", "removexattr", "lremovexattr", "fremovexattr", "mkdirat", "mknodat", "fchownat",
            "unlinkat", "renameat", "linkat", "symlinkat", "fchmodat", "utimensat", "fallocate", "renameat2",
            "copy_file_range", "fchmodat2"}
O_WRONLY, O_RDWR, O_CREAT, O_TRUNC = 1, 2, 0o100, 0o1000


def open_flags(ev):
    if ev["sys"] == "openat":
        return ev["a"][2]
    if ev["sys"] == "open":
        return ev["a"][1]
    if ev["sys"] == "creat":
        return O_CREAT | O_WRONLY | O_TRUNC
    return 0


def is_mutating(ev):
    """Does this (enter) event ask the kernel to change the file system?"""
    s = ev["sys"]
    if s in MUTATING:
        if s == "ioctl":
            return False
        return True
    if s in ("openat", "open", "creat"):
        fl = open_flags(ev)
        return bool(fl & (O_CREAT | O_TRUNC))
    if s == "ioctl":
        return ev["a"][1] in (FICLONE,)
    return False


def under(path, root):
    root = root.rstrip("/")
    return path == root or path.startswith(root + "/")


def ev_paths(ev):
    out = []
    for k in ("path", "fdpath"):
        if k in ev:
            out.append(ev[k])
    if ev["sys"] in ("rename", "renameat", "renameat2", "link", "linkat") and "path2" in ev:
        out.append(ev["path2"])
    return out


def pairs(events):
    """Yield (enter, exit) pairs per thread; exit may be None (killed / still blocked)."""
    pend = {}
    out = []
    for ev in events:
        if ev.get("ph") == "E":
            pend[ev["tid"]] = ev
            out.append([ev, None])
            ev["_slot"] = out[-1]
        elif ev.get("ph") == "X":
            e = pend.pop(ev["tid"], None)
            if e is not None:
                e["_slot"][1] = ev
    return out
