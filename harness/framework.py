"""Generic check driver: build, generate cases, run them 16-way, aggregate, evidence, replay."""
import json
import multiprocessing as mp
import os
import sys
import traceback

from . import core
from .report import Report


def _wrap(args):
    fn_mod, case = args[0], args[1]
    fn = args[2] if len(args) > 2 else "run_case"
    mod = sys.modules[fn_mod]
    try:
        return getattr(mod, fn)(case)
    except core.HarnessError as e:
        return {"inconc": ["harness-error"], "trace": str(e)}
    except Exception:
        return {"inconc": ["harness-exception"], "trace": traceback.format_exc()}


def pmap(mod, cases, procs=None, fn="run_case"):
    procs = procs or min(core.NCPU, 16)
    if len(cases) <= 1 or procs == 1:
        return [_wrap((mod.__name__, c, fn)) for c in cases]
    ctx = mp.get_context("fork")
    # A worker that is killed from outside (the kernel's OOM killer, say) takes its task with it and Pool.map would wait for
    # ever.  Results are therefore collected as they complete, under a watchdog: if nothing completes for STALL_S seconds the
    # outstanding cases are recorded as inconclusive (never as held, never as violated) and the pool is torn down.
    stall = int(os.environ.get("VERIF_STALL_S") or getattr(mod, "STALL_S", 1500))
    out = [None] * len(cases)
    with ctx.Pool(procs) as pool:
        it = pool.imap_unordered(_wrap_indexed, [(i, mod.__name__, c, fn) for i, c in enumerate(cases)], chunksize=1)
        done = 0
        while done < len(cases):
            try:
                i, r = it.next(timeout=stall)
            except mp.TimeoutError:
                break
            except StopIteration:
                break
            out[i] = r
            done += 1
        if done < len(cases):
            pool.terminate()
    return [r if r is not None else {"inconc": ["harness-task-lost"]} for r in out]


def _wrap_indexed(a):
    return a[0], _wrap(a[1:])


def absorb(rep, case, res, max_traces=[3]):
    for e in res.get("evals", []):
        rep.observe(e.get("key"), e.get("sample"))
    for v in res.get("viol", []):
        rep.violation(v["sig"], v["what"], {"case": case, "detail": v.get("detail")})
    for r in res.get("inconc", []):
        brief = {k: case[k] for k in ("driver", "workers", "n", "sname", "name", "args", "plan", "family", "policy", "content", "extra", "fs", "seed") if k in case}
        rep.inconc(r, json.loads(json.dumps(brief, default=str)) if brief else None)
    for k, n in res.get("counters", {}).items():
        rep.count(k, n)
    if res.get("trace") and max_traces[0] > 0:
        max_traces[0] -= 1
        print("--- harness trace (case %s) ---\n%s" % (case.get("id"), res["trace"]), file=sys.stderr)


def run_check(mod, tier, seed, replay=None):
    rep = Report(mod.PROP, tier, seed, mod.LEVEL, mod.RULE)
    rep.assumptions = list(getattr(mod, "ASSUMPTIONS", []))
    core.cleanup_stale()
    try:
        probes = core.ensure_built(getattr(mod, "PROBES", ()))
    except core.HarnessError as e:
        print("HARNESS-ERROR property=%s: %s" % (mod.PROP, e))
        return 2
    mod.PROBE_BIN = probes
    if replay:
        return run_replay(mod, rep, replay)
    cases = list(mod.gen_cases(tier, seed))
    if hasattr(mod, "expand_case"):
        # two-phase checks: a baseline run per case yields the concrete (site x action) cases
        expanded = []
        for c, r in zip(cases, pmap(mod, cases, getattr(mod, "PROCS", None), fn="expand_case")):
            if isinstance(r, dict):
                absorb(rep, c, r)
            else:
                expanded.extend(r)
        cases = expanded
    for i, c in enumerate(cases):
        c.setdefault("id", i)
    results = pmap(mod, cases, getattr(mod, "PROCS", None))
    for c, r in zip(cases, results):
        absorb(rep, c, r)
    if hasattr(mod, "finalize"):
        mod.finalize(rep, cases, results, tier, seed)
    return rep.finish()


def run_replay(mod, rep, path):
    with open(path) as f:
        blob = json.load(f)
    want = blob.get("sig")
    if "cases" in blob.get("case", {}):
        # a violation found by comparing several executions (group oracle): re-run the whole group and compare again
        cases = blob["case"]["cases"]
        for i in range(getattr(mod, "REPLAY_ATTEMPTS", 3)):
            rep2 = Report(mod.PROP, rep.tier, rep.seed, mod.LEVEL, mod.RULE)
            rep2.known = []
            results = pmap(mod, cases, getattr(mod, "PROCS", None))
            for c, r in zip(cases, results):
                absorb(rep2, c, r)
            mod.finalize(rep2, cases, results, rep.tier, rep.seed)
            sigs = [v[0] for v in rep2.violations]
            print("replay attempt %d (group of %d executions): violations=%s" % (i + 1, len(cases), sorted(set(sigs))[:6]))
            if want in sigs:
                print("VIOLATION property=%s replay=%s" % (mod.PROP, path))
                return 1
        print("replay: violation %s not reproduced" % want)
        return 0
    case = blob["case"]["case"] if "case" in blob.get("case", {}) else blob["case"]
    attempts = getattr(mod, "REPLAY_ATTEMPTS", 5)
    hit = False
    for i in range(attempts):
        res = _wrap((mod.__name__, case))
        sigs = [v["sig"] for v in res.get("viol", [])]
        print("replay attempt %d: violations=%s inconclusive=%s" % (i + 1, sigs, res.get("inconc", [])))
        if res.get("trace"):
            print(res["trace"])
        for v in res.get("viol", []):
            print("  %s: %s" % (v["sig"], v["what"][:800]))
        if want in sigs or (sigs and want is None):
            hit = True
            break
    if hit:
        print("VIOLATION property=%s replay=%s" % (mod.PROP, path))
        return 1
    print("replay: violation %s not reproduced in %d attempts" % (want, attempts))
    return 0
