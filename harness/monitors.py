"""Offline trace monitors over xsup event logs (engine E5).

Every monitor returns (violations, observed) where observed counts the events it needed; a monitor
that observed nothing relevant must be treated as inconclusive by its caller.
"""
import hashlib
import posixpath

from . import core

DATA_WRITES = {"copy_file_range", "write", "pwrite64", "writev", "ftruncate", "fallocate"}
META_CALLS = {"fchmod", "fchown", "fsetxattr", "utimensat", "fremovexattr"}
ENOENT = 2


def rel(path, root):
    if path is None:
        return None
    if path.startswith(root):
        return posixpath.normpath(path[len(root):].lstrip("/") or ".")
    return None


def is_clone(ev):
    return ev["sys"] == "ioctl" and ev["a"][1] == core.FICLONE


def data_write(ev):
    return ev["sys"] in DATA_WRITES or is_clone(ev)


def metadata_after_last_byte(events, root, dest_prefix="dst"):
    """C06/C10: no metadata call on a destination inode may *begin* before every data write to that
    inode has *returned*.  Compares exit(w).seq with enter(m).seq on the supervisor's total order."""
    viol = []
    first_meta = {}   # ino -> (seq, sys)
    pend = {}         # tid -> enter event of a data write in flight
    last_write_exit = {}
    nmeta = nwrites = 0
    for ev in events:
        ph = ev.get("ph")
        if ph not in ("E", "X"):
            continue
        ino = ev.get("ino")
        p = rel(ev.get("fdpath"), root)
        if ino is None or p is None or not (p == dest_prefix or p.startswith(dest_prefix + "/") or p.startswith(dest_prefix)):
            continue
        if ph == "E":
            if ev["sys"] in META_CALLS:
                nmeta += 1
                first_meta.setdefault(ino, (ev["seq"], ev["sys"], p))
                # any write still in flight on this inode?
                for tid, w in pend.items():
                    if w.get("ino") == ino:
                        viol.append(("meta-before-write-returned",
                                     "%s on %s entered (seq %d) while %s by tid %d (entered seq %d) had not returned"
                                     % (ev["sys"], p, ev["seq"], w["sys"], tid, w["seq"])))
            elif data_write(ev):
                nwrites += 1
                pend[ev["tid"]] = ev
                if ino in first_meta:
                    m = first_meta[ino]
                    viol.append(("write-after-meta", "%s on %s entered (seq %d) after %s had been applied (seq %d)"
                                 % (ev["sys"], p, ev["seq"], m[1], m[0])))
        else:
            if data_write(ev):
                pend.pop(ev["tid"], None)
                last_write_exit[ino] = ev["seq"]
    return viol, {"meta_calls": nmeta, "data_writes": nwrites}


def no_enoent_creation(events, root, dest_prefix="dst"):
    """C06: a directory exists before anything is created inside it -- no creating call by a worker /
    dispatcher under the destination may fail with ENOENT (the walker's own create_dir_all probing excepted)."""
    viol = []
    n = 0
    for ent, ex in core.pairs(events):
        if ex is None:
            continue
        s = ent["sys"]
        creating = (s in ("mkdir", "mkdirat", "symlink", "symlinkat", "mknod", "mknodat", "rename", "renameat", "renameat2", "link", "linkat")
                    or (s in ("openat", "open", "creat") and core.open_flags(ent) & core.O_CREAT))
        if not creating:
            continue
        p = rel(ent.get("path"), root)
        if p is None or not p.startswith(dest_prefix):
            continue
        n += 1
        if ex.get("ret") == -ENOENT and ent.get("role") != "walker" and not ex.get("act"):
            viol.append(("create-before-parent", "%s of %s by %s failed with ENOENT: parent directory did not exist yet"
                         % (s, p, ent.get("role"))))
    return viol, {"creations": n}


def fsync_after_last_write(events, root, dest_prefix="dst"):
    """C18: for every destination inode written, a successful fsync/fdatasync must *enter* after every data
    write on that inode has *returned*."""
    writes = {}   # ino -> list of (enter_seq, exit_seq or None, sys)
    syncs = {}    # ino -> list of (enter_seq, ret)
    paths = {}
    for ent, ex in core.pairs(events):
        ino = ent.get("ino")
        p = rel(ent.get("fdpath"), root)
        if ino is None or p is None or not p.startswith(dest_prefix):
            continue
        paths[ino] = p
        if data_write(ent):
            writes.setdefault(ino, []).append((ent["seq"], ex["seq"] if ex else None, ent["sys"], ex.get("ret") if ex else None))
        elif ent["sys"] in ("fsync", "fdatasync"):
            syncs.setdefault(ino, []).append((ent["seq"], ex.get("ret") if ex else None))
    viol = []
    for ino, ws in writes.items():
        last_exit = max((w[1] if w[1] is not None else float("inf")) for w in ws)
        ok = [s for s in syncs.get(ino, []) if s[1] == 0 and s[0] > last_exit]
        if not ok:
            if not syncs.get(ino):
                viol.append(("no-fsync", "%s was written (%d data calls) but never fsynced" % (paths[ino], len(ws))))
            else:
                viol.append(("fsync-before-last-write", "%s: fsync entered at seq %s but a data write returned at seq %s"
                             % (paths[ino], [s[0] for s in syncs[ino]], last_exit)))
    return viol, {"files_written": len(writes), "fsyncs": sum(len(v) for v in syncs.values()),
                  "data_writes": sum(len(v) for v in writes.values())}


def interleaving_signature(events, root):
    """Hash of the sequence of (role, syscall, object) over file-system-mutating enter events."""
    h = hashlib.sha256()
    n = 0
    for ev in events:
        if ev.get("ph") != "E" or not core.is_mutating(ev):
            continue
        p = rel(ev.get("path") or ev.get("fdpath"), root)
        if p is None:
            continue
        h.update(("%s|%s|%s;" % (ev.get("role"), ev["sys"], p)).encode("latin-1", "replace"))
        n += 1
    return h.hexdigest()[:16], n


def writer_threads(events, root, dest_prefix="dst"):
    """Per destination file: set of tids that wrote data (evidence that blocks really ran on several workers)."""
    out = {}
    for ev in events:
        if ev.get("ph") == "E" and ev["sys"] in ("copy_file_range", "pwrite64", "write"):
            p = rel(ev.get("fdpath"), root)
            if p and p.startswith(dest_prefix):
                out.setdefault(p, set()).add(ev["tid"])
    return out
