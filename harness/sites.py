"""Injection sites: enumerate the sandbox-touching system calls of a baseline trace.

A site id is schedule-independent: (syscall, object path, k-th occurrence on that object [, ioctl cmd]).
"""
from . import core

# errnos worth injecting per syscall (Linux numbers)
EIO, ENOSPC, EACCES, EMFILE, EROFS, EEXIST, EPERM, ENOENT, EINTR, ENOSYS, EXDEV, EOPNOTSUPP, EINVAL, ENOMEM = \
    5, 28, 13, 24, 30, 17, 1, 2, 4, 38, 18, 95, 22, 12

ERRNOS = {
    "openat": [EACCES, EMFILE, ENOSPC, EROFS, ENOENT],      # (ENOENT: the entry has vanished since it was listed)
    "statx": [EIO, EACCES],
    "newfstatat": [EIO, EACCES],
    "ftruncate": [ENOSPC, EIO],
    "copy_file_range": [EIO, ENOSPC],
    "read": [EIO],
    "pread64": [EIO],
    "write": [EIO, ENOSPC],
    "pwrite64": [EIO, ENOSPC],
    "lseek": [EIO],
    "ioctl": [EIO],
    "mkdir": [EACCES, ENOSPC, EROFS],
    "symlink": [EEXIST, EACCES],
    "readlink": [EIO],
    "mknodat": [EPERM, EEXIST],
    "unlink": [EPERM],
    "rename": [EACCES, ENOSPC],
    "getdents64": [EIO],
    "fchmod": [EPERM, EIO],
    "utimensat": [EPERM, EIO],
    "fsync": [EIO],
    "fchown": [EPERM],
    "flistxattr": [EIO],
    "fgetxattr": [EIO],
    "fsetxattr": [ENOSPC, EOPNOTSUPP],
}
# failures the statement explicitly tolerates (warnings only)
TOLERATED = {"flistxattr", "fgetxattr", "fsetxattr", "fchown", "close"}


def obj_of(ev):
    """The object path a rule can match for this event."""
    if "path" in ev:
        return ev["path"]
    if "fdpath" in ev:
        return ev["fdpath"]
    return None


def enumerate_sites(events, root, only_mutating=False, include_tolerated=False):
    """Sites of all enter events touching objects under root, in baseline order."""
    seen = {}
    sites = []
    for ev in events:
        if ev.get("ph") != "E":
            continue
        s = ev["sys"]
        if s not in ERRNOS and not (only_mutating and core.is_mutating(ev)):
            if s not in ERRNOS:
                continue
        if s in TOLERATED and not include_tolerated:
            continue
        obj = obj_of(ev)
        if obj is None or not core.under(obj, root):
            continue
        if obj.startswith(root + ".aux"):
            continue
        if s == "write" and ev.get("fd") in (1, 2):
            continue
        if only_mutating and not core.is_mutating(ev):
            continue
        key = (s, obj, ev["a"][1] if s == "ioctl" else None)
        seen[key] = seen.get(key, 0) + 1
        site = {"sys": s, "path": obj, "nth": seen[key], "role": ev.get("role"), "mut": core.is_mutating(ev)}
        if s == "ioctl":
            site["iocmd"] = ev["a"][1]
        if s in ("openat",):
            site["flags"] = ev["a"][2]
        sites.append(site)
    return sites


def site_rule(site, rid, **kw):
    r = {"id": rid, "sys": site["sys"], "path": site["path"], "nth": site["nth"]}
    if "iocmd" in site:
        r["iocmd"] = site["iocmd"]
    r.update(kw)
    return r


def site_sig(site, root):
    """Signature fragment of a site that does not depend on the sandbox location or the k-th index."""
    p = site["path"]
    rel = p[len(root):].lstrip("/") if p.startswith(root) else p
    return "%s@%s" % (site["sys"], rel)
