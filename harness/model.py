"""Reference model: cp's mapping rule and what a correct destination looks like (engine E3).

The model works on *snapshots* (tree.snapshot of the sandbox root taken before the run), never on
xcp's own output, and knows nothing about xcp's implementation.
"""
import os
import posixpath

from .core import b, u


class ModelSkip(Exception):
    """Case is outside what the model defines (the generator should not have produced it)."""


def norm_rel(root, path):
    """Sandbox-relative, lexically normalised form of an argument (str latin-1)."""
    p = path
    if p.startswith("@ROOT@"):
        p = p[len("@ROOT@"):].lstrip("/")
    elif p.startswith(root):
        p = p[len(root):].lstrip("/")
    p = posixpath.normpath(p) if p else ""
    return "" if p == "." else p


def last_component(path):
    """The last component of a source argument as cp (POSIX basename) sees it: trailing slashes do not count, `.` and `..` do
    (`dir/.` names the directory's contents, not the directory)."""
    p = path.rstrip("/")
    if not p:
        return "/"
    return p.split("/")[-1]


def resolve(snap, rel, depth=0):
    """Follow symlinks of a sandbox-relative path inside a snapshot -> (rel, record) or (None, None)."""
    if depth > 40:
        return None, None
    parts = [c for c in rel.split("/") if c]
    cur = ""
    for i, c in enumerate(parts):
        if c == "..":
            cur = posixpath.dirname(cur)
            continue
        nxt = (cur + "/" + c) if cur else c
        rec = snap.get(nxt)
        if rec is None:
            return None, None
        if rec["k"] == "l":
            tgt = rec["link"]
            if tgt.startswith("/"):
                return None, None  # absolute links are resolved by the caller with root knowledge
            rest = "/".join(parts[i + 1:])
            base = posixpath.normpath(posixpath.join(cur, tgt)) if cur else posixpath.normpath(tgt)
            if base.startswith(".."):
                return None, None
            if base == ".":
                base = ""
            return resolve(snap, (base + "/" + rest) if rest else base, depth + 1)
        cur = nxt
    return cur, snap.get(cur)


def children(snap, rel):
    pre = rel + "/" if rel else ""
    return sorted(p for p in snap if p and p.startswith(pre) and p != rel)


def map_sources(snap, root, sources, dest, no_target_dir=False):
    """cp's mapping rule.  Returns (mapping, dest_rel) where mapping is a list of
    {"src": rel, "dst": rel, "rec": record-of-src} for every entry selected (no filtering, no -L)."""
    dest_rel = norm_rel(root, dest)
    rdest, drec = resolve(snap, dest_rel) if dest_rel else ("", snap.get(""))
    dest_is_dir = drec is not None and drec["k"] == "d"
    if dest_is_dir and rdest is not None and rdest != dest_rel and not no_target_dir:
        dest_rel = rdest      # the destination is a symlink to a directory: entries land in the directory it points to
    out = []
    seen_dst = {}
    for s in sources:
        s_rel = norm_rel(root, s)
        rec = snap.get(s_rel)
        if rec is None:
            raise ModelSkip("source missing: " + s)
        base = last_component(s)
        if base == "/":
            raise ModelSkip("source is the root")
        # (a source spelled `dir/.` or `dir/..` has no name of its own: cp puts its contents into the destination itself)
        tb = posixpath.join(dest_rel, base) if (dest_is_dir and not no_target_dir and base not in (".", "..")) else dest_rel
        entries = [(s_rel, tb, rec)]
        if rec["k"] == "d":
            for c in children(snap, s_rel):
                entries.append((c, tb + c[len(s_rel):], snap[c]))
        for src, dst, r in entries:
            if dst in seen_dst and (seen_dst[dst][0] != "d" or r["k"] != "d"):
                if seen_dst[dst] == (r["k"], src):
                    continue        # the very same source entry selected twice (overlapping patterns): one mapping
                raise ModelSkip("two sources map onto " + dst)
            seen_dst[dst] = (r["k"], src)
            out.append({"src": src, "dst": dst, "rec": r})
    return out, dest_rel


def ancestors(rel):
    out = []
    while rel:
        rel = posixpath.dirname(rel)
        out.append(rel)
    return out


def check_mirror(pre, post, mapping, check_content=True, check_kind=True):
    """C01/C02 core: every mapped entry present with the right kind / link text / bytes.
    Returns list of (sig_fragment, message)."""
    bad = []
    for m in mapping:
        r, d = m["rec"], post.get(m["dst"])
        if d is None:
            bad.append(("missing:" + r["k"], "%s (%s) has no counterpart at %s" % (m["src"], r["k"], m["dst"])))
            continue
        if d["k"] != r["k"]:
            if check_kind:
                bad.append(("kind:%s->%s" % (r["k"], d["k"]), "%s is %s but %s is %s" % (m["src"], r["k"], m["dst"], d["k"])))
            continue
        if r["k"] == "l" and check_kind and d.get("link") != r.get("link"):
            bad.append(("linktext", "%s -> %r but %s -> %r" % (m["src"], r.get("link"), m["dst"], d.get("link"))))
        if r["k"] == "f" and check_content:
            if d["size"] != r["size"]:
                bad.append(("size", "%s has %d bytes, %s has %d" % (m["src"], r["size"], m["dst"], d["size"])))
            elif d.get("sha") != r.get("sha"):
                bad.append(("bytes", "%s and %s differ in content (same length %d)" % (m["src"], m["dst"], r["size"])))
    return bad


def check_untouched(pre, post, mapped_dsts, exempt=(), fields=("k", "mode", "uid", "gid", "size", "mtime_ns", "ino", "rdev", "link", "xattrs", "sha")):
    """Everything that is not a mapped destination must be exactly as before, and nothing new may appear.
    Directories that contain a mapped destination may change mtime/size/nlink (children were added)."""
    mapped = set(mapped_dsts)
    parents = set()
    for d in mapped:
        parents.update(ancestors(d))
    bad = []
    for p in sorted(set(pre) | set(post)):
        if p in mapped or p in exempt:
            continue
        a, c = pre.get(p), post.get(p)
        if a is None:
            bad.append(("created", "unexpected new entry %r (%s)" % (p, c["k"])))
            continue
        if c is None:
            bad.append(("removed", "entry %r (%s) disappeared" % (p, a["k"])))
            continue
        for f in fields:
            if p in parents and a["k"] == "d" and f in ("mtime_ns", "size", "nlink"):
                continue
            if a.get(f) != c.get(f):
                bad.append(("changed:" + f, "%r: %s changed from %r to %r" % (p, f, a.get(f), c.get(f))))
    return bad


def first_diff(path_a, path_b):
    """Offset of the first differing byte of two files, plus a small classification."""
    bs = 1 << 20
    off = 0
    with open(path_a, "rb") as fa, open(path_b, "rb") as fb:
        while True:
            x, y = fa.read(bs), fb.read(bs)
            if x != y:
                n = min(len(x), len(y))
                i = next((k for k in range(n) if x[k] != y[k]), n)
                tail = y[i:i + 4096]
                kind = "zeros" if tail and not any(tail) else ("eof" if i >= len(y) else "other-bytes")
                return off + i, kind
            if not x:
                return None, None
            off += len(x)


def check_meta(pre, post, mapping, perms=True, times=True, xattrs=True, owner=False, xattr_exempt=()):
    """C10 core for regular files: mode, mtime (ns), user xattrs, owner as requested.  xattr_exempt: sandbox-relative source or
    destination paths of files whose attributes are not compared (an attribute call on exactly that file was made to fail)."""
    bad = []
    for m in mapping:
        r, d = m["rec"], post.get(m["dst"])
        if r["k"] != "f" or d is None or d["k"] != "f":
            continue
        xattrs_here = xattrs and m["src"] not in xattr_exempt and m["dst"] not in xattr_exempt
        if perms and d["mode"] != r["mode"]:
            bad.append(("mode", "%s has mode %o, %s has %o" % (m["src"], r["mode"], m["dst"], d["mode"])))
        if times and d["mtime_ns"] != r["mtime_ns"]:
            bad.append(("mtime", "%s has mtime %d, %s has %d" % (m["src"], r["mtime_ns"], m["dst"], d["mtime_ns"])))
        if perms and xattrs_here:
            for k, v in r.get("xattrs", {}).items():
                if k.startswith("user.") and d.get("xattrs", {}).get(k) != v:
                    bad.append(("xattr", "%s has %s=%r, %s has %r" % (m["src"], k, v, m["dst"], d.get("xattrs", {}).get(k))))
        if owner and (d["uid"], d["gid"]) != (r["uid"], r["gid"]):
            bad.append(("owner", "%s is %d:%d, %s is %d:%d" % (m["src"], r["uid"], r["gid"], m["dst"], d["uid"], d["gid"])))
    return bad


def check_nodes(pre, post, mapping, umask=0o022):
    """C14 core: special nodes recreated with the same type, device number and mode & ~umask."""
    bad = []
    for m in mapping:
        r, d = m["rec"], post.get(m["dst"])
        if r["k"] not in ("fifo", "sock", "chr") or d is None or d["k"] != r["k"]:
            continue
        if r["k"] == "chr" and d["rdev"] != r["rdev"]:
            bad.append(("rdev", "%s is device %s, %s is %s" % (m["src"], r["rdev"], m["dst"], d["rdev"])))
        if d["mode"] != (r["mode"] & ~umask):
            bad.append(("nodemode", "%s has mode %o (umask %o), %s has %o" % (m["src"], r["mode"], umask, m["dst"], d["mode"])))
    return bad
