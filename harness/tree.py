"""Tree specifications: generation, materialisation, snapshots and diffs (engines E2/E3).

A *spec* is a JSON-serialisable list of entries (parents before children):
  {"p": "rel/path" (latin-1 str = raw bytes), "k": "f|d|l|fifo|sock|chr|blk",
   "size": n, "segs": [[off,len],...] | None, "seed": int, "sync": bool,
   "mode": int, "mtime_ns": int, "xattrs": {name: value}, "uid": int, "gid": int,
   "target": str (links), "rdev": [major, minor]}
"""
import errno
import hashlib
import os
import random
import stat

from .core import b, u

PAGE = 4096


def body(seed, size, off=0):
    """Deterministic pseudo-random bytes of file `seed`, range [off, off+size).

    The stream is generated in 64 KiB chunks keyed by (seed, chunk index), so any range
    can be produced without generating the prefix; bytes are never all-zero pages.
    """
    CH = 65536
    out = bytearray()
    first = off // CH
    last = (off + size - 1) // CH if size > 0 else first - 1
    for c in range(first, last + 1):
        r = random.Random((seed << 24) ^ c)
        chunk = bytearray(r.randbytes(CH))
        # make sure no byte run is zero for long: force every 64th byte non-zero
        for i in range(0, CH, 64):
            if chunk[i] == 0:
                chunk[i] = 1 + (c + i) % 255
        out += chunk
    start = off - first * CH
    return bytes(out[start:start + size])


def expected_content_hash(e):
    """sha256 of the full logical content of a regular-file entry (holes read as zeros)."""
    h = hashlib.sha256()
    size = e["size"]
    segs = e.get("segs")
    if segs is None:
        pos = 0
        while pos < size:
            n = min(1 << 22, size - pos)
            h.update(body(e["seed"], n, pos))
            pos += n
        return h.hexdigest()
    pos = 0
    Z = bytes(1 << 20)
    for off, ln in sorted(segs):
        while pos < off:
            n = min(len(Z), off - pos)
            h.update(Z[:n])
            pos += n
        p = off
        while p < off + ln:
            n = min(1 << 22, off + ln - p)
            h.update(body(e["seed"], n, p))
            p += n
        pos = off + ln
    while pos < size:
        n = min(len(Z), size - pos)
        h.update(Z[:n])
        pos += n
    return h.hexdigest()


def write_file(path, e):
    size = e["size"]
    segs = e.get("segs")
    fd = os.open(path, os.O_WRONLY | os.O_CREAT | os.O_TRUNC, 0o600)
    try:
        if "text" in e:
            os.write(fd, b(e["text"]))
        elif segs is None:
            pos = 0
            while pos < size:
                n = min(1 << 22, size - pos)
                os.write(fd, body(e["seed"], n, pos))
                pos += n
        else:
            os.ftruncate(fd, size)
            for off, ln in e.get("falloc") or []:
                # preallocated (unwritten) ranges: they read as zeros but are extents of their own, logically
                # adjacent to the written data around them
                os.posix_fallocate(fd, off, ln)
            for off, ln in segs:
                p = off
                while p < off + ln:
                    n = min(1 << 22, off + ln - p)
                    os.pwrite(fd, body(e["seed"], n, p), p)
                    p += n
        if e.get("sync"):
            os.fsync(fd)
    finally:
        os.close(fd)


def materialize(root, spec):
    """Create the entries of spec under root (bytes path).  Parents must precede children."""
    root = b(root)
    os.makedirs(root, exist_ok=True)
    later = []
    for e in spec:
        p = os.path.join(root, b(e["p"])) if e["p"] else root
        k = e["k"]
        if k == "d":
            os.makedirs(p, exist_ok=True)
        elif k == "f":
            write_file(p, e)
        elif k == "l":
            os.symlink(b(e["target"]), p)
        elif k == "hard":
            os.link(os.path.join(root, b(e["target"])), p)
            continue
        elif k == "fifo":
            os.mknod(p, stat.S_IFIFO | 0o600)
        elif k == "sock":
            os.mknod(p, stat.S_IFSOCK | 0o600)
        elif k == "chr":
            os.mknod(p, stat.S_IFCHR | 0o600, os.makedev(*e["rdev"]))
        elif k == "blk":
            os.mknod(p, stat.S_IFBLK | 0o600, os.makedev(*e["rdev"]))
        else:
            raise ValueError("bad kind " + k)
        later.append((p, e))
    # metadata: children before parents so directory mtimes stick
    for p, e in reversed(later):
        k = e["k"]
        for name, val in (e.get("xattrs") or {}).items():
            os.setxattr(p, b(name), b(val), follow_symlinks=False)
        if "uid" in e or "gid" in e:
            os.chown(p, e.get("uid", -1), e.get("gid", -1), follow_symlinks=False)
        if k != "l":
            os.chmod(p, e.get("mode", 0o755 if k == "d" else 0o644))
        if "mtime_ns" in e:
            os.utime(p, ns=(e.get("atime_ns", e["mtime_ns"]), e["mtime_ns"]), follow_symlinks=False)


def kind_of(st):
    m = st.st_mode
    if stat.S_ISREG(m): return "f"
    if stat.S_ISDIR(m): return "d"
    if stat.S_ISLNK(m): return "l"
    if stat.S_ISFIFO(m): return "fifo"
    if stat.S_ISSOCK(m): return "sock"
    if stat.S_ISCHR(m): return "chr"
    if stat.S_ISBLK(m): return "blk"
    return "?"


def sha_file(path, want_zero_info=False):
    h = hashlib.sha256()
    with open(path, "rb", buffering=0) as f:
        while True:
            d = f.read(1 << 22)
            if not d:
                break
            h.update(d)
    return h.hexdigest()


def data_map(path):
    """List of [start, end) data segments via SEEK_DATA/SEEK_HOLE."""
    segs = []
    fd = os.open(path, os.O_RDONLY)
    try:
        size = os.fstat(fd).st_size
        pos = 0
        while pos < size:
            try:
                d = os.lseek(fd, pos, os.SEEK_DATA)
            except OSError as ex:
                if ex.errno == errno.ENXIO:
                    break
                raise
            h = os.lseek(fd, d, os.SEEK_HOLE)
            segs.append([d, h])
            pos = h
    finally:
        os.close(fd)
    return segs


def record(path, content=True, dmap=False):
    st = os.lstat(path)
    k = kind_of(st)
    r = {"k": k, "mode": stat.S_IMODE(st.st_mode), "uid": st.st_uid, "gid": st.st_gid, "size": st.st_size,
         "mtime_ns": st.st_mtime_ns, "ctime_ns": st.st_ctime_ns, "ino": st.st_ino, "dev": st.st_dev,
         "nlink": st.st_nlink, "rdev": [os.major(st.st_rdev), os.minor(st.st_rdev)], "blocks": st.st_blocks}
    if k == "l":
        r["link"] = u(os.readlink(path))
    try:
        names = os.listxattr(path, follow_symlinks=False)
        r["xattrs"] = {u(b(n) if isinstance(n, str) else n): u(os.getxattr(path, n, follow_symlinks=False)) for n in names}
    except OSError:
        r["xattrs"] = {}
    if k == "f" and content:
        try:
            r["sha"] = sha_file(path)
        except OSError as ex:
            r["sha"] = "unreadable:%d" % ex.errno
        if dmap:
            r["dmap"] = data_map(path)
    return r


def snapshot(root, content=True, dmap=False, include_root=True):
    """{relative path (latin-1 str, '' = root): record} for everything under root (bytes)."""
    root = b(root)
    out = {}
    if not os.path.lexists(root):
        return out
    if include_root:
        out[""] = record(root, content, dmap)
    if not (os.path.isdir(root) and not os.path.islink(root)):
        return out
    stack = [b""]
    while stack:
        rel = stack.pop()
        d = os.path.join(root, rel) if rel else root
        try:
            names = os.listdir(d)
        except OSError:
            continue
        for n in names:
            r = os.path.join(rel, n) if rel else n
            p = os.path.join(root, r)
            if len(p) > 3800:
                # a runaway tree (paths near PATH_MAX): recorded as such, not descended into
                out[u(r)] = {"k": "too-deep", "size": 0, "mode": 0, "uid": 0, "gid": 0, "mtime_ns": 0, "ino": 0, "nlink": 0, "rdev": [0, 0], "xattrs": {}}
                continue
            rec = record(p, content, dmap)
            out[u(r)] = rec
            if rec["k"] == "d":
                stack.append(r)
    return out


IDENT_FIELDS = ("k", "mode", "uid", "gid", "size", "mtime_ns", "ino", "nlink", "rdev", "link", "xattrs", "sha")


def diff_snapshots(a, c, fields=IDENT_FIELDS, ignore_dir_mtime=False):
    """List of (path, what, before, after) differences between two snapshots."""
    out = []
    for p in sorted(set(a) | set(c)):
        if p not in c:
            out.append((p, "removed", a[p].get("k"), None))
        elif p not in a:
            out.append((p, "created", None, c[p].get("k")))
        else:
            for f in fields:
                if ignore_dir_mtime and f == "mtime_ns" and a[p]["k"] == "d":
                    continue
                if a[p].get(f) != c[p].get(f):
                    out.append((p, f, a[p].get(f), c[p].get(f)))
    return out


# ---------------------------------------------------------------------------
# generators

NAME_POOL = ["a", "b", "c", "file", "file2", "file.txt", "data.bin", "x y", "tab\tname", "été".encode("utf-8").decode("latin-1"),
             ".hidden", "-dash", "a.~1~", "star*", "q?", "[br]", "UPPER", "long" * 20, "nl\nname", "semi;colon"]
NONUTF8 = ["bad\xff", "\xfe\xfdx", "caf\xe9"]  # latin-1 str standing for raw bytes: invalid UTF-8


def pick_name(r, used, allow_nonutf8=True, pool=None):
    for _ in range(50):
        if allow_nonutf8 and r.random() < 0.12:
            n = r.choice(NONUTF8) + (str(r.randrange(10)) if r.random() < 0.5 else "")
        else:
            n = r.choice(pool or NAME_POOL)
            if r.random() < 0.3:
                n += str(r.randrange(100))
        if n not in used and n not in (".", ".."):
            used.add(n)
            return n
    n = "n%d" % len(used)
    used.add(n)
    return n


def boundary_sizes(bs):
    c = [0, 1, 2, bs - 1, bs, bs + 1, 2 * bs - 1, 2 * bs, 2 * bs + 1, 3 * bs + 7, 5 * bs - 1, 8 * bs, 13, 4095, 4096, 4097,
         65535, 65536, 65537, 100003]
    return sorted({x for x in c if x >= 0})


def gen_tree(r, depth=3, fanout=5, kinds=("f", "d", "l"), nonutf8=True, sizes=None, max_entries=60,
             xattrs=False, modes=False, mtimes=False, link_kinds=("rel", "abs", "dangling", "dir"), root_abs=None,
             prefix=""):
    """Random tree spec (entries relative to the tree root; '' root dir itself is implicit)."""
    spec = []
    files, dirs = [], [""]
    counter = [0]

    def rec(dpath, d):
        used = set()
        n = r.randint(0 if d > 0 else 1, fanout)
        for _ in range(n):
            if len(spec) >= max_entries:
                return
            k = r.choice(kinds)
            if k == "d" and d >= depth:
                k = "f"
            name = pick_name(r, used, allow_nonutf8=nonutf8)
            p = (dpath + "/" + name) if dpath else name
            counter[0] += 1
            e = {"p": p, "k": k}
            if k == "f":
                e["size"] = r.choice(sizes) if sizes else r.choice([0, 1, 17, 1000, 4096, 5000, 70000])
                e["seed"] = r.randrange(1, 1 << 30)
                e["segs"] = None
                files.append(p)
            elif k == "l":
                lk = r.choice(link_kinds)
                if lk == "rel" and files:
                    tgt = r.choice(files)
                    e["target"] = os.path.relpath(tgt, os.path.dirname(p) or ".")
                elif lk == "abs" and files and root_abs:
                    e["target"] = root_abs + "/" + r.choice(files)
                elif lk == "dir" and len(dirs) > 1:
                    tgt = r.choice(dirs[1:])
                    e["target"] = os.path.relpath(tgt, os.path.dirname(p) or ".")
                else:
                    e["target"] = "no/such/target%d" % counter[0]
            if modes and k in ("f", "d"):
                e["mode"] = (r.choice([0o644, 0o600, 0o755, 0o640, 0o444, 0o666, 0o700, 0o604]) if k == "f"
                             else r.choice([0o755, 0o700, 0o750, 0o775]))
            if mtimes and k in ("f",):
                e["mtime_ns"] = r.choice([1_000_000_000, 1_234_567_890_123_456_789, 946_684_800_000_000_001,
                                          2_000_000_000_999_999_999]) + r.randrange(1000)
            if xattrs and k == "f" and r.random() < 0.4:
                e["xattrs"] = {"user.k%d" % i: "v%d" % r.randrange(1000) for i in range(r.randint(1, 3))}
            spec.append(e)
            if k == "d":
                dirs.append(p)
                rec(p, d + 1)

    rec(prefix, 0)
    return spec


def gen_sparse_layout(r, max_size=64 << 20, max_segs=6, align=True, min_hole=1 << 20):
    """Random (size, segs) with holes >= min_hole between data segments."""
    n = r.randint(0, max_segs)
    segs = []
    pos = 0
    if r.random() < 0.6:
        pos += r.choice([min_hole, 2 * min_hole, min_hole + PAGE * r.randint(1, 10)])  # leading hole
    for i in range(n):
        ln = r.choice([1, 100, PAGE - 1, PAGE, PAGE + 1, 3 * PAGE, 10000, 65536, 70001, 200000])
        if align:
            pos = (pos + PAGE - 1) // PAGE * PAGE
        else:
            pos += r.randrange(PAGE)
        segs.append([pos, ln])
        pos += ln
        pos += r.choice([min_hole, min_hole + PAGE, 3 * min_hole, min_hole + r.randrange(1 << 20)])
    if r.random() < 0.5 and segs:
        size = segs[-1][0] + segs[-1][1]  # data at the very end
        if r.random() < 0.5:
            size = segs[-1][0] + segs[-1][1]
    else:
        size = pos + r.choice([0, 1, PAGE, min_hole])
    if not segs and size == 0:
        size = r.choice([0, min_hole, 5 * min_hole + 17])
    size = min(size, max(max_size, size))
    return size, segs


def fix_mtimes(spec, base=1_600_000_000_000_000_000):
    """Give every regular file without an explicit mtime a deterministic one (so that runs in different
    sandboxes are comparable)."""
    for i, e in enumerate(spec):
        if e["k"] == "f" and "mtime_ns" not in e:
            e["mtime_ns"] = base + i * 1_000_000_007
    return spec
