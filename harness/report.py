"""Verdicts, evidence files, replay files, known findings (DESIGN.md section 4)."""
import fnmatch
import hashlib
import json
import os
import time

from .core import VERIF

# (VERIF_OUT_DIR: self-validation runs against deliberately broken trees keep their evidence and replays out of /verif)
_OUT = os.environ.get("VERIF_OUT_DIR") or VERIF
EVID_DIR = os.path.join(_OUT, "evidence")
REPLAY_DIR = os.path.join(_OUT, "replays")
KNOWN = os.path.join(VERIF, "known_findings.json")


def load_known():
    try:
        with open(KNOWN) as f:
            return json.load(f).get("findings", [])
    except OSError:
        return []


class Report:
    """Collects what one check run observed and turns it into exit status + evidence."""

    def __init__(self, prop, tier, seed, level, rule):
        self.prop, self.tier, self.seed, self.level, self.rule = prop, tier, seed, level, rule
        self.t0 = time.time()
        self.evaluations = 0
        self.distinct = set()
        self.samples = []
        self.extra = {}
        self.violations = []      # (sig, what, replay dict)
        self.inconclusive = []    # (reason, info)
        self.known_hits = {}      # sig pattern -> [what, count]
        self.assumptions = []
        self.counters = {}
        self.known = [k for k in load_known() if k.get("property") == prop and k.get("status", "open") == "open"]
        self.min_conclusive = 1

    # -- observations -------------------------------------------------------
    def count(self, key, n=1):
        self.counters[key] = self.counters.get(key, 0) + n

    def observe(self, distinct_key=None, sample=None, max_samples=6):
        """One conclusive evaluation; distinct_key identifies its non-trivial class (None = trivial)."""
        self.evaluations += 1
        if distinct_key is not None:
            self.distinct.add(json.dumps(distinct_key, sort_keys=True, default=str))
        if sample is not None and len(self.samples) < max_samples:
            self.samples.append(sample)

    def inconc(self, reason, info=None):
        self.inconclusive.append((reason, info))
        self.count("inconclusive:" + reason)

    def violation(self, sig, what, replay):
        """sig: exact signature of the failing thing (used for known-finding matching)."""
        for k in self.known:
            if fnmatch.fnmatchcase(sig, k["sig"]):
                h = self.known_hits.setdefault(k["sig"], [k.get("what", what), 0, sig])
                h[1] += 1
                self.count("known-finding-hits")
                return False
        self.violations.append((sig, what, replay))
        return True

    # -- finish -------------------------------------------------------------
    def finish(self):
        os.makedirs(EVID_DIR, exist_ok=True)
        wall = time.time() - self.t0
        seen_sigs = set()
        for sig, (what, n, ex) in sorted(self.known_hits.items()):
            print("KNOWN-FINDING: property=%s %s [sig=%s, %d occurrence(s) this run]" % (self.prop, what, sig, n))
        nviol = 0
        for sig, what, replay in self.violations:
            if sig in seen_sigs:
                continue
            seen_sigs.add(sig)
            nviol += 1
            if nviol > 12:
                continue
            rdir = os.path.join(REPLAY_DIR, self.prop)
            os.makedirs(rdir, exist_ok=True)
            blob = json.dumps({"property": self.prop, "sig": sig, "what": what, "case": replay}, indent=1, default=str)
            path = os.path.join(rdir, hashlib.sha256(blob.encode()).hexdigest()[:16] + ".json")
            with open(path, "w") as f:
                f.write(blob)
            print("VIOLATION property=%s replay=%s" % (self.prop, path))
            print("  sig: %s" % sig)
            print("  what: %s" % what[:600])
        reasons = {}
        for reason, info in self.inconclusive:
            reasons[reason] = reasons.get(reason, 0) + 1
        for reason, n in sorted(reasons.items()):
            print("INCONCLUSIVE property=%s reason=%s count=%d" % (self.prop, reason, n))
        cov = {
            "evaluations": self.evaluations,
            "distinct_nontrivial": len(self.distinct),
            "rule": self.rule,
            "samples": self.samples[:8],
            "counters": self.counters,
            "inconclusive": reasons,
            # which cases were inconclusive (first few per reason), so that they can be looked at and replayed
            "inconclusive_cases": [{"reason": r_, "case": i_} for r_, i_ in self.inconclusive if i_ is not None][:12],
            "known_findings_hit": {s: v[1] for s, v in self.known_hits.items()},
            "violation_signatures": sorted(seen_sigs)[:50],
        }
        cov.update(self.extra)
        ev = {"property_id": self.prop, "tier": self.tier, "seed": self.seed, "level": self.level,
              "coverage": cov, "assumptions": self.assumptions, "wall_s": round(wall, 2), "violations": nviol}
        with open(os.path.join(EVID_DIR, self.prop + ".json"), "w") as f:
            json.dump(ev, f, indent=1, default=str)
        print("%s: tier=%s seed=%d evaluations=%d distinct_nontrivial=%d violations=%d known=%d inconclusive=%d wall=%.1fs"
              % (self.prop, self.tier, self.seed, self.evaluations, len(self.distinct), nviol,
                 sum(v[1] for v in self.known_hits.values()), len(self.inconclusive), wall))
        for k in sorted(self.counters):
            print("  %-40s %s" % (k, self.counters[k]))
        if nviol:
            return 1
        if self.evaluations < self.min_conclusive or len(self.distinct) < 2:
            print("HARNESS-ERROR property=%s: too few conclusive observations (%d evaluations, %d distinct)"
                  % (self.prop, self.evaluations, len(self.distinct)))
            return 2
        return 0
