#!/bin/bash
# Build the framework from files on disk only (offline).
set -e
cd "$(dirname "$0")"
mkdir -p bin evidence replays /var/tmp/xcp-verif /dev/shm/xcp-verif
gcc -O2 -w -o bin/xsup xsup/xsup.c
echo "setup ok"
